#!/usr/bin/env python3
"""summ.py - one line per replay record under replays/<prop>/ (triage helper)."""
import json, sys, glob, os
d = sys.argv[1] if len(sys.argv) > 1 else 'replays/ALL'
for f in sorted(glob.glob(os.path.join(d, '*.json'))):
    r = json.load(open(f))
    fo = r['failed_obligation']
    print('== %s | %s | %s:%s' % (r['job'], fo['desc'], fo['file'].split('/')[-1], fo['line']))
    i = r.get('inputs') or {}
    sc = {k.replace('IN.', ''): v['data'] for k, v in i.items() if '[' not in k}
    arr = {}
    for k, v in i.items():
        if '[' in k:
            arr.setdefault(k.split('[')[0].replace('IN.', ''), []).append((int(k.split('[')[1].rstrip(']').split(']')[0]), v['data']))
    print('    ', sc)
    for a, l in arr.items():
        print('    ', a, [x[1] for x in sorted(l)])
    rp = r.get('replay')
    if rp:
        lines = [l for l in rp['output'].split('\n') if 'SUMMARY' in l or 'REPLAY' in l or 'runtime error' in l or 'failed' in l]
        print('     replay: reproduced=%s rc=%s %s' % (rp['reproduced'], rp['rc'], lines[:3]))
    else:
        print('     replay: none')
