#!/bin/sh
# seed_confirm.sh <id> <agent-out-dir> : independently confirm a seeded change in a fresh scratch
# worktree of /repo HEAD: (1) patch applies, library builds with no compiler error, (2) the
# pinned suite passes (127 PASS, 0 FAIL), (3) the demonstration fails with the change and
# passes without it.  Prints a JSON summary; removes the worktree.
id="$1"; out="$2"; wt=/tmp/wt/confirm_$id
rm -rf "$wt"; git -C /repo worktree prune
/verif/tools/mkwt.sh "$wt" >/dev/null 2>&1 || { echo "{\"id\":\"$id\",\"error\":\"worktree\"}"; exit 1; }
cd "$wt"
# demo without the change
mkdir -p "$wt/demo_out"; cp -r "$out"/. "$wt/demo_out/"
sed -e "s#/tmp/wt/${id}_out#$wt/demo_out#g" -e "s#/tmp/wt/$id#$wt#g" "$out/run_demo.sh" > "$wt/demo_out/run_demo_confirm.sh"
for f in "$wt"/demo_out/*.c "$wt"/demo_out/*.sh; do [ -f "$f" ] && sed -i -e "s#/tmp/wt/${id}_out#$wt/demo_out#g" -e "s#/tmp/wt/$id#$wt#g" "$f"; done
base_rc=$( (cd "$wt" && sh ./demo_out/run_demo_confirm.sh >/tmp/wt/confirm_$id.base.log 2>&1; echo $?) )
git apply "$out/patch.diff" || { echo "{\"id\":\"$id\",\"error\":\"patch does not apply\"}"; exit 1; }
berr=$(make -j8 2>&1 | grep -c " error: ")
make -k check -j8 > /tmp/wt/confirm_$id.check.log 2>&1
pass=$(grep "^# PASS:" /tmp/wt/confirm_$id.check.log | awk '{print $3}'); fail=$(grep "^# FAIL:" /tmp/wt/confirm_$id.check.log | awk '{print $3}')
mut_rc=$( (cd "$wt" && sh ./demo_out/run_demo_confirm.sh >/tmp/wt/confirm_$id.mut.log 2>&1; echo $?) )
echo "{\"id\":\"$id\",\"build_errors\":$berr,\"suite_pass\":\"$pass\",\"suite_fail\":\"$fail\",\"demo_rc_without_change\":$base_rc,\"demo_rc_with_change\":$mut_rc}"
cd /; git -C /repo worktree remove --force "$wt"
