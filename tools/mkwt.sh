#!/bin/sh
# mkwt.sh <dir> - scratch git worktree of /repo HEAD with a fresh in-tree autotools build.
# (configure and Makefile.in are generated files that git ignores; they are copied from /repo,
# then ./configure runs in the worktree so that no path points back into /repo.)
set -e
d="$1"
git -C /repo worktree add --detach "$d" HEAD >/dev/null 2>&1
cd /repo
for f in configure aclocal.m4 config.h.in Makefile.in libsafec.pc.in Doxyfile.in; do [ -e "$f" ] && cp -p "$f" "$d/$f"; done
cp -rp build-aux "$d/" 2>/dev/null || true
cp -rp m4 "$d/" 2>/dev/null || true
find . -name Makefile.in -not -path "./.git/*" | while read f; do mkdir -p "$d/$(dirname $f)"; cp -p "$f" "$d/$f"; done
cd "$d"
# keep generated files older than their outputs so that make does not try to re-run autotools
touch aclocal.m4; sleep 1; touch configure config.h.in; find . -name Makefile.in | xargs touch
CFLAGS=-Wno-error ./configure >/dev/null 2>&1
make -j8 >/dev/null 2>&1
echo "worktree ready: $d"
