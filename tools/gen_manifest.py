#!/usr/bin/env python3
"""gen_manifest.py - writes /verif/MANIFEST.json from the job registry and the per-property
texts below, so that the manifest always names exactly the properties that have jobs."""
import json
import os
import sys

VERIF = os.path.dirname(os.path.dirname(os.path.abspath(__file__)))
sys.path.insert(0, os.path.join(VERIF, 'lib'))
import jobs as registry  # noqa: E402

TECH = 'CBMC code contracts on the real sources: %s'

PROPS = {
    'C01': ('proof', 'Frame (assigns) obligations and store-side pointer obligations on the real functions: unbounded for the 37 functions under loop contracts (strcpy_s, strncpy_s - disjoint and intersecting extents -, strcat_s, strncat_s, strnlen_s, wcsnlen_s, 7 classifiers, 6 searches/index comparisons, strcmp_s/strcasecmp_s/strcmpfld_s/strprefix_s, strspn_s/strcspn_s/strpbrk_s (nested loops), memcmp_s, 6 single-loop writers, bsearch_s, timingsafe_bcmp/memcmp) and the loop-free wrappers, bounded stand-ins (stated bound) for the rest.',
            'assigns-clause frame checks + pointer checks under function contracts (loop contracts where closed, else bounded unwinding)'),
    'C02': ('proof', 'Load-side pointer obligations with exact-fit objects (every stray read is a named obligation), unterminated inputs included; unbounded where loop contracts close, bounded elsewhere.',
            'pointer-check obligations on exact-fit objects under function/loop contracts; bounded unwinding stand-ins'),
    'C03': ('proof', 'Postcondition "a NUL exists in dest[0..dmax)" on every return path (ghost index form), arbitrary prior contents; unbounded for functions under loop contracts, bounded for the rest.',
            'ensures clauses with ghost indices discharged by CBMC (loop contracts) + bounded harnesses against a reference model'),
    'C04': ('proof', 'Postcondition "ret != EOK => dest[gk] == 0" for arbitrary gk plus source-unchanged frame; bounded harnesses for overlap placements.',
            'ensures clauses + frame conditions (CBMC contracts); bounded harnesses with reference model'),
    'C05': ('proof', 'Ghost handler-call counter and code in the contract of the reporting primitive; postcondition exactly-once with the returned code; RSIZE rejection before touch as frame condition. getenv_s, strerror_s, asctime_s and ctime_s loop-free against callee contracts (strcpy_s/strncpy_s/strcat_s as proved, libc assumed).',
            'ghost-state contracts on the constraint-handler dispatch, ensures clauses on every entry point covered'),
    'C06': ('proof', 'Quantifier-free characterisation of the exact result (ghost indices) as postcondition; word-unrolled primitives by bounded enumeration.',
            'functional ensures clauses with ghost indices (CBMC loop contracts); bounded harnesses vs. reference functions'),
    'C07': ('proof', 'Unbounded (loop contracts): strcpy_s / strncpy_s with intersecting extents in either order - success only for disjoint written/read elements with the original text, ESOVRLP only when they would intersect. Loop-free full-domain contracts for the overlap decision of the eight memory copy/move wrappers (every placement, 64-bit sizes) modulo the primitive contracts; bounded stand-ins: every relative placement of src and dest of the string family in one arena against an interval-overlap reference, the move primitives by enumeration.',
            'function contracts on the memory wrappers (CBMC, loop-free) + bounded CBMC harness over all placements inside one arena'),
    'C09': ('model_checking', 'Bounded: the pre-scan of each of the 20 delegating entry points against a reference scanner of the directive grammar (libc formatter as assumed contract whose requires clause is "no %n directive"), all formats <= 5 characters over a 9-letter alphabet; the narrow engine with one concrete format per run incl. every %n spelling.',
            'requires-clause on the assumed libc formatter contract checked at every call site (bounded CBMC); concrete-format runs of the real engine'),
    'C10': ('proof', 'Unbounded (loop contracts, exact-fit objects of symbolic size): strnlen_s, wcsnlen_s, strfirstchar_s, strlastchar_s, str{first,last}{diff,same}_s with the returned index/pointer as witness, memcmp_s (0 => equal, value range, sign at index 0), strcmpfld_s (0 => fields equal at every index), strcmp_s / strcasecmp_s / strprefix_s (answer at index 0 as unsigned char / upper-cased, value range, result 0 on failure; the position of the first difference is a witness they do not return), strspn_s / strcspn_s / strpbrk_s (nested loops: count / pointer inside dmax, every element before it non-NUL, behaviour against the first element of src; membership in the rest of src needs a witness inside src); loop-free full-domain contracts modulo the callee contracts: memchr_s, memrchr_s (libc memchr/memrchr assumed), strchr_s (strnlen_s contract as proved by A.strnlen_s + libc memchr assumed) - found and not-found cases complete; bounded: 34 query functions on exact-fit operands of <= 5 elements against reference loops (answer, operands unmodified), all contents/sizes/flags.',
            'ensures clauses over ghost indices under loop contracts; bounded CBMC harnesses with reference functions; pointer obligations on exact-fit objects'),
    'C11': ('model_checking', 'Bounded: the real engine behind sprintf_s/snprintf_s with one concrete format per run (34 formats) and symbolic arguments against a reference renderer of the C11 rules for d i u x X o c s %; float conversions not applicable.',
            'bounded CBMC runs of the real formatter against a specification renderer written in the harness'),
    'C12': ('proof', 'Exact census of static-lifetime non-const storage over all 142 translation units (goto symbol tables) + assignment/address-taken scan; frame (assigns) obligations in every contract-enforced job.',
            'symbol-table census + assigns-clause frame obligations (CBMC contracts)'),
    'C13': ('proof', 'Loop-free contracts on the six registration/dispatch functions from an arbitrary pre-state of all four cells (induction step over histories), storage-class obligation from the symbol table.',
            'function contracts (requires/ensures/assigns) enforced by CBMC on the real, #included sources; full domain'),
    'C14': ('model_checking', 'Bounded call sequences of strtok_s/wcstok_s (strings <= 4..5, delimiter sets changing per call) against the C11 algorithm as index arithmetic.',
            'bounded CBMC harness over call sequences with a reference tokenizer'),
    'C15': ('proof', 'Wrapper logic of the six converters against assumed libc contracts (count/characters passed through unaltered, cleared on error, len clamped to dmax); narrow-destination wrappers loop-free full domain, wide-destination ones bounded. Round trips / locale: not applicable.',
            'assumed contracts on libc converters with requires checked at call sites; wrapper postconditions by CBMC'),
    'C16': ('proof', 'bsearch_s under a loop contract for every nmemb (comparator arguments in range, returned element matches, termination) and bounded against linear search; smoothsort leaf functions under contract (cycle rotation for widths incl. > 256, shl/shr/pntz full 128-bit domain). Whole qsort_s not decided.',
            'function contracts on cycle/shl/shr/pntz enforced by CBMC; bounded harness for bsearch_s'),
    'C17': ('proof', 'Full 2^32 domain: Hangul composition/decomposition arithmetic incl. rejection above U+10FFFF, round trip lemma, iswfc vs towfc_s count agreement; table conformance to the UCD not applicable.',
            'loop-free full-domain postconditions on the real lookup code (CBMC)'),
    'C18': ('proof', 'Value + frame of the erase functions modulo primitive contracts, plus ghost event ordering "a memory barrier follows the last store" (barrier intrinsic given a ghost body); primitives bounded by enumeration. The quantifier over compilers is an assumption.',
            'ghost-clock postcondition + primitive contracts (CBMC); enumerated bounded checks of mem_prim_set*'),
    'C19': ('proof', 'Every n (loop contracts): the numbers of taken / not-taken branch events (inserted mechanically by goto-instrument --branch) are ghost state of the loop contract and agree for two runs on independent contents; result 0 implies equal regions, value range, sign at index 0. Bounded n <= 6: complete result against a reference, exact branch sequence by self-composition.',
            'ghost branch counters in loop contracts + two-run harness (CBMC contracts); bounded self-composition on branch traces'),
    'C20': ('model_checking', 'Bounded: every subset of the internal allocations fails (cbmc --malloc-may-fail --malloc-fail-null), memory-leak check, NULL-dereference obligations and dest-cleared-on-failure for the %ls / %L paths of the printf engine and the four wide printf no-space probes; wcsnorm_s / wcsicmp_s allocations not reached.',
            'allocation-failure enumeration by the verifier malloc model + leak obligation (bounded CBMC)'),
    'C08': ('proof', 'Postcondition "zero is absorbing behind the terminator up to dmax" with arbitrary prior contents, both sides of the 0x20 memset switch reachable (canaries).',
            'ensures clauses with ghost indices under loop contracts; bounded harnesses'),
}


def main():
    checks = []
    served = sorted({p for j in registry.JOBS for p in j.props})
    for p in served:
        if p not in PROPS:
            continue
        level, text, tech = PROPS[p]
        # the level follows the registry: proof when the quick tier has unbounded (engine A / C) jobs
        # for the property, model_checking when everything is a bounded stand-in (the check computes
        # the evidence level from the obligations it actually discharged the same way)
        unb = [j for j in registry.JOBS if p in j.props and 'quick' in j.tiers and j.engine in ('A', 'C')
               and (j.quick_props is None or p in j.quick_props)]
        level = 'proof' if unb else 'model_checking'
        has_thorough = any('thorough' in j.tiers for j in registry.JOBS if p in j.props)
        c = {
            'property_id': p,
            'quick_cmd': './check %s --tier quick' % p,
            'evidence_file': 'evidence/%s.json' % p,
            'replay_cmd_template': './check --replay {path}',
            'engine': 'cbmc-contracts',
            'level_claimed': {'category': level, 'text': text, 'design_ref': 'DESIGN.md section 4 (%s) as planned, section 9.2 as built' % p},
            'level_note': 'Trusted: CBMC 6.11 + CaDiCaL, LP64 bit-precise model; libc delegates as assumed contracts; '
                          'flat address space for the library\'s own cross-object pointer comparisons; configuration of /repo/config.h. '
                          'Bounded stand-ins are reported separately in evidence (bounded_*), never counted as proved.',
            'technique': TECH % tech,
        }
        if has_thorough:
            c['thorough_cmd'] = './check %s --tier thorough' % p
        checks.append(c)
    allp = [json.loads(l)['id'] for l in open(os.path.join(VERIF, 'properties.jsonl'))]
    na_reasons = json.load(open(os.path.join(VERIF, 'tools', 'not_applicable.json')))
    na = []
    for p in allp:
        if p not in [c['property_id'] for c in checks]:
            na.append({'property_id': p, 'reason': na_reasons.get(p, 'no check built yet for this property (see DESIGN.md section 4)')})
    m = {
        'version': 1,
        'setup_cmd': 'python3 tools/selftest.py',
        'hooks': {
            'guard': 'SAFECLIB_VERIF',
            'enable': 'no hooks: contracts live in /verif and are laid over scratch copies of the unmodified sources (lib/overlay.py, add-only); the guard name is reserved and unused',
            'baseline_off_cmd': 'make -C /repo -k check',
            'source_commits': [],
            'add_only': True,
        },
        'engines': [
            {'name': 'cbmc-contracts', 'path': 'check', 'serves_properties': [c['property_id'] for c in checks],
             'kind_free_text': 'goto-cc + goto-instrument (legacy loop contracts, --enforce-contract) + cbmc/CaDiCaL; engines A (loop contracts, unbounded), C (loop-free full domain), B (bounded stand-in, labelled)'},
        ],
        'checks': checks,
        'not_applicable': na,
        'notes': 'Exit codes: 0 held, 1 VIOLATION line, 2 undecided (timeout/tool error/overlay inapplicable). known_findings.txt lists recorded defects and fixed ones.',
    }
    with open(os.path.join(VERIF, 'MANIFEST.json'), 'w') as f:
        json.dump(m, f, indent=1)
    print('MANIFEST.json: %d checks, %d not_applicable' % (len(checks), len(na)))


if __name__ == '__main__':
    main()
