#!/usr/bin/env python3
"""cex.py <job> <obligation-id-substring> : re-run one job restricted to the matching obligations with
--trace and print the counterexample's input assignments (IN.*) plus selected locals."""
import sys, os, re, json
sys.path.insert(0, os.path.join(os.path.dirname(os.path.dirname(os.path.abspath(__file__))), 'lib'))
import vlib, jobs
j = jobs.BY_NAME[sys.argv[1]]; pat = sys.argv[2]
r = vlib.run_job(j, 'quick', want_trace=True, select=lambda o: pat in o['id'] or pat in o['desc'])
print(r['state'], r['messages'][:2])
for o in r['obligations']:
    if o['status'] == 'FAILURE' and 'trace' in o:
        print('==', o['id'], o['desc'], o['file'].split('/')[-1], o['line'])
        vals = {}
        for st in o['trace']:
            if st.get('stepType') == 'assignment':
                l = st.get('lhs', '')
                v = st.get('value', {})
                if (l.startswith('IN.') or l in sys.argv[3:]) and 'data' in v:
                    vals[l] = v['data']
        print('  ', vals)
