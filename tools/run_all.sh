#!/bin/sh
# run_all.sh [tier]: every claimed property's check, sequentially; one summary line each.
tier=${1:-quick}
cd /verif
for p in $(python3 -c "import json; print(' '.join(c['property_id'] for c in json.load(open('MANIFEST.json'))['checks']))"); do
  s=$(date +%s)
  ./check $p --tier $tier > /tmp/runall_$p.log 2>&1; rc=$?
  e=$(date +%s)
  echo "$p rc=$rc $((e-s))s $(grep -c '^VIOLATION' /tmp/runall_$p.log) violations $(grep -c '^UNDECIDED' /tmp/runall_$p.log) undecided $(grep -c '^KNOWN' /tmp/runall_$p.log) known"
done
