#!/bin/sh
# try_seed.sh <seed-id> <property> [extra check args]: apply seeded/<id>/patch.diff to /repo, run the
# property's check, undo the change straight afterwards.  Never commits anything in /repo.
id="$1"; prop="$2"; shift 2
cd /verif
git -C /repo diff --quiet || { echo "/repo working tree is not clean"; exit 9; }
git -C /repo apply "/verif/seeded/$id/patch.diff" || { echo "patch does not apply"; exit 9; }
./check "$prop" "$@" > "/tmp/try_${id}_${prop}.log" 2>&1; rc=$?
git -C /repo checkout -- .
grep -c "^VIOLATION" "/tmp/try_${id}_${prop}.log" | sed "s/^/violations: /"
grep "^VIOLATION" "/tmp/try_${id}_${prop}.log" | head -5
tail -1 "/tmp/try_${id}_${prop}.log"
cp evidence/$prop.json /tmp/try_${id}_${prop}.evidence.json 2>/dev/null
git -C /verif checkout -- evidence/$prop.json 2>/dev/null
exit $rc
