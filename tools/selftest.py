#!/usr/bin/env python3
"""selftest.py - MANIFEST.setup_cmd: nothing to build (python + pre-installed cbmc tools);
verifies that the tools are present and that the overlay inserter is add-only on every
contract file against the current /repo tree."""
import os, shutil, subprocess, sys
VERIF = os.path.dirname(os.path.dirname(os.path.abspath(__file__)))
sys.path.insert(0, os.path.join(VERIF, 'lib'))
import overlay, jobs
ok = True
for t in ('cbmc', 'goto-cc', 'goto-instrument', 'gcc'):
    if not shutil.which(t):
        print('missing tool', t); ok = False
print(subprocess.run(['cbmc', '--version'], capture_output=True, text=True).stdout.strip())
for j in jobs.JOBS:
    for rel, lf in j.overlays.items():
        src = os.path.join('/repo', rel)
        try:
            txt = open(src).read()
            new, info = overlay.apply_overlay(txt, overlay.parse_loops_file(os.path.join(VERIF, lf)), None, src)
            assert overlay.check_add_only(txt, new)
        except Exception as e:
            print('overlay %s on %s: %r' % (lf, rel, e))
os.makedirs(os.path.join(VERIF, 'evidence'), exist_ok=True)
os.makedirs(os.path.join(VERIF, '.cache'), exist_ok=True)
print('selftest', 'ok' if ok else 'FAILED')
sys.exit(0 if ok else 1)
