/* convfam.c - engine C (loop-free, full domain) harness for the multibyte / wide converters
 * (C15 wrapper logic, C01, C03, C04, C05, C08).  The libc delegates are ASSUMED CONTRACTS (A3):
 * ghost bodies below that (requires) demand the extent the C standard demands of their caller and
 * (ensures) return an arbitrary admissible count, store arbitrary characters recorded through the
 * ghost index gk, and leave errno untouched on success / set EILSEQ on failure.  Agreement with
 * glibc's actual conversion tables, locale behaviour and round trips are NOT decided here.
 *
 *  -DFN=1 mbstowcs_s  2 wcstombs_s  3 mbsrtowcs_s  4 wcsrtombs_s  5 wcrtomb_s  6 wctomb_s
 */
#include "verif.h"
#include <wchar.h>
#include <errno.h>
#include <limits.h>

#if FN == 1 || FN == 3
typedef wchar_t DCH; typedef char SCH;
#define DMAXLIM RSIZE_MAX_WSTR
#else
typedef char DCH; typedef wchar_t SCH;
#define DMAXLIM RSIZE_MAX_STR
#endif

int g_hcalls; errno_t g_herr; void *g_hptr;
static void verif_handler(const char *restrict msg, void *restrict ptr, errno_t error)
{ (void)msg; (void)ptr; g_hcalls++; g_herr = error; }

/* ---- ghost state of the stubs */
size_t gk;                 /* arbitrary output index */
size_t g_srclen;           /* the source string has this many characters before its terminator */
size_t g_ret; int g_fail;  /* what the (one) converting delegate call returned */
size_t g_query;            /* what a length query (dest == NULL) returns: the full converted length */
DCH g_out_k;               /* the character the delegate stored at index gk */
int g_calls_conv, g_calls_query;
size_t g_n_given;          /* the n handed to the converting call */

size_t nondet_size_t(void); int nondet_int(void); unsigned char nondet_uchar(void);
unsigned int nondet_uint(void);

#ifndef VERIF_REPLAY
/* common body: converts at most n characters of a g_srclen-character string */
static size_t conv_stub(DCH *dest, size_t n)
{
    if (dest == NULL) {                 /* length query */
        g_calls_query++;
        if (g_fail) { errno = EILSEQ; return (size_t)-1; }
        return g_query;
    }
    g_calls_conv++; g_n_given = n;
    if (g_fail) { errno = EILSEQ; return (size_t)-1; }
    size_t r = g_ret;
    __CPROVER_assume(r <= n && r <= g_query);
    /* the delegate stores r characters, plus the terminator when it stopped before n */
    size_t stored = r + (r < n ? 1 : 0);
    __CPROVER_precondition(stored == 0 || __CPROVER_w_ok(dest, stored * sizeof(DCH)),
                           "memset destination region writeable: libc converter is handed more room (len) than dest has");
    if (stored > 0) {
#ifdef SMALL
        for (size_t i = 0; i < SMALL + 1; i++) if (i < stored) dest[i] = (DCH)nondet_uint();   /* arbitrary characters */
#else
        DCH tmp[stored];
        __CPROVER_array_replace(dest, tmp);           /* arbitrary characters */
#endif
        if (r < n) dest[r] = 0;
        if (gk < r) { __CPROVER_assume(dest[gk] != 0); g_out_k = dest[gk]; }
    }
    return r;
}
#if FN == 1
size_t mbstowcs(wchar_t *dest, const char *src, size_t n) { (void)src; return conv_stub(dest, n); }
#elif FN == 2
size_t wcstombs(char *dest, const wchar_t *src, size_t n) { (void)src; return conv_stub(dest, n); }
#elif FN == 3
size_t mbsrtowcs(wchar_t *dest, const char **src, size_t n, mbstate_t *ps) { (void)ps; size_t r = conv_stub(dest, n); if (dest && r != (size_t)-1 && r < n) *src = NULL; return r; }
#elif FN == 4
size_t wcsrtombs(char *dest, const wchar_t **src, size_t n, mbstate_t *ps) { (void)ps; size_t r = conv_stub(dest, n); if (dest && r != (size_t)-1 && r < n) *src = NULL; return r; }
#else
/* wcrtomb(dest, wc, ps): stores 1..MB_CUR_MAX bytes, or (size_t)-1 */
size_t wcrtomb(char *dest, wchar_t wc, mbstate_t *ps)
{
    (void)wc; (void)ps;
    if (dest == NULL) { g_calls_query++; return 1; }
    g_calls_conv++;
    if (g_fail) { errno = EILSEQ; return (size_t)-1; }
    size_t r = g_ret;
    __CPROVER_assume(r >= 1 && r <= 6);
    __CPROVER_precondition(__CPROVER_w_ok(dest, r), "memset destination region writeable: wcrtomb is handed a dest smaller than the character needs");
    char tmp[r]; __CPROVER_array_replace(dest, tmp);
    if (gk < r) g_out_k = dest[gk];
    return r;
}
int wctomb(char *dest, wchar_t wc) { size_t r = wcrtomb(dest, wc, NULL); return r == (size_t)-1 ? -1 : (int)r; }
#endif
#endif

struct {
    unsigned char dest_null, src_null, ret_null, bos_known;
    size_t dext, dmax, len, srclen, ret, query; unsigned char fail; int errno0; unsigned int wc;
} IN;
#ifndef VERIF_REPLAY
static void draw(void)
{
    IN.dest_null = nondet_uchar(); IN.src_null = nondet_uchar(); IN.ret_null = nondet_uchar(); IN.bos_known = nondet_uchar();
    IN.dext = nondet_size_t(); IN.dmax = nondet_size_t(); IN.len = nondet_size_t(); IN.srclen = nondet_size_t();
    IN.ret = nondet_size_t(); IN.query = nondet_size_t(); IN.fail = nondet_uchar(); IN.errno0 = nondet_int(); IN.wc = nondet_uint();
}
#else
static void draw(void)
{
#include "replay_in.h"
}
#endif

void harness(void)
{
    draw();
    ASSUME(IN.dest_null <= 1 && IN.src_null <= 1 && IN.ret_null <= 1 && IN.bos_known <= 1 && IN.fail <= 1);
#ifdef SMALL
    /* bounded variant (wide destinations): extents of at most SMALL elements, element-typed objects */
    ASSUME(IN.dext >= 1 && IN.dext <= SMALL && IN.srclen <= SMALL);
#else
    ASSUME(IN.dext >= 1 && IN.dext <= ((size_t)1 << 20) && IN.srclen <= ((size_t)1 << 20));
#endif
    size_t dext = IN.dext, dmax = IN.dmax, len = IN.len;
    /* sizes computed apart from the malloc call: the verifier then types the objects as byte arrays,
       on which its built-in memset model (symbolic length) is exact */
    size_t dbytes = dext * sizeof(DCH), sbytes = (IN.srclen + 1) * sizeof(SCH);
#ifdef SMALL
    DCH *dbuf = malloc(SMALL * sizeof(DCH));     /* constant size: flattened; the declared extent is dext */
    SCH *sbuf = malloc((SMALL + 1) * sizeof(SCH));
    (void)dbytes; (void)sbytes;
#else
    DCH *dbuf = malloc(dbytes);
    SCH *sbuf = malloc(sbytes);
#endif
    ASSUME(dbuf && sbuf);
    sbuf[IN.srclen] = 0;
    DCH *dest = IN.dest_null ? NULL : dbuf;
    const SCH *src = IN.src_null ? NULL : sbuf;
    size_t destbos = IN.bos_known ? dext * sizeof(DCH) : BOS_UNKNOWN;
    /* truthful dest size */
    if (!IN.bos_known && !IN.dest_null) ASSUME(dmax > DMAXLIM || dmax <= dext);
    ASSUME(gk < dext);
    DCH old_k = dbuf[gk];
#ifndef VERIF_REPLAY
    g_srclen = IN.srclen; g_ret = IN.ret; g_fail = IN.fail; g_query = IN.query;
    ASSUME(g_query <= g_srclen * (sizeof(SCH) == 1 ? 1 : 6));   /* the full conversion cannot be longer than that */
    g_calls_conv = g_calls_query = 0;
#endif
    errno = IN.errno0;            /* whatever an earlier call left behind */
    g_hcalls = 0;
    set_str_constraint_handler_s(verif_handler); thrd_set_str_constraint_handler_s(verif_handler);
    size_t retval = 0x5a5a5a5a; size_t *retp = IN.ret_null ? NULL : &retval;
    errno_t rc;
#if FN == 1
    rc = _mbstowcs_s_chk(retp, dest, dmax, src, len, destbos);
#elif FN == 2
    rc = _wcstombs_s_chk(retp, dest, dmax, src, len, destbos);
#elif FN == 3
    { mbstate_t st; memset(&st, 0, sizeof st); const char *sp = src; rc = _mbsrtowcs_s_chk(retp, dest, dmax, IN.src_null ? NULL : &sp, len, &st, destbos); }
#elif FN == 4
    { mbstate_t st; memset(&st, 0, sizeof st); const wchar_t *sp = src; rc = _wcsrtombs_s_chk(retp, dest, dmax, IN.src_null ? NULL : &sp, len, &st, destbos); }
#elif FN == 5
    { mbstate_t st; memset(&st, 0, sizeof st); rc = _wcrtomb_s_chk(retp, dest, dmax, (wchar_t)IN.wc, &st, destbos); }
#else
    { int iret = 0x5a5a; rc = _wctomb_s_chk(IN.ret_null ? NULL : &iret, dest, dmax, (wchar_t)IN.wc, destbos); retval = (size_t)iret; }
#endif

    /* C05 */
    CHECK(rc == EOK ? g_hcalls == 0 : g_hcalls <= 1, "C05: handler invoked although the call succeeded, or more than once");
    CHECK(g_hcalls == 0 || g_herr == rc, "C05: handler receives a code different from the one returned");
    /* C01: nothing outside dest[0..dmax) */
    if (!(gk < dmax) || IN.dest_null) CHECK(dbuf[gk] == old_k, "C01: element outside dest[0..dmax) modified");
#ifndef VERIF_REPLAY
    int usable = !IN.dest_null && dmax > 0 && dmax <= dext && dmax <= DMAXLIM;
#if FN <= 4
    if (IN.ret_null || IN.src_null) return;
    if (IN.dest_null) {
        /* size query form: returns what the delegate's length query returns */
        if (!g_fail && dmax == 0) {
            CHECK(rc == EOK, "C15: size query (dest null) on a convertible string reports an error");
            if (rc == EOK) CHECK(retval == g_query, "C15: size query does not return the delegate's length");
        }
        return;
    }
    if (!usable || len > DMAXLIM) return;
    /* C03 as its own obligation (added after seed C03b: the C08/C03 clause below is vacuous when the
     * count equals dmax): the delegate's count is the witness on success, index 0 on failure */
    /* (sizes above this family's own limit RSIZE_MAX_WSTR are rejected before dest is touched: C05) */
    if ((IN.bos_known || (dmax <= RSIZE_MAX_WSTR && len <= RSIZE_MAX_WSTR)) && (rc != EOK || (g_calls_conv == 1 && !g_fail))) {
        size_t w = (rc == EOK) ? g_ret : 0;
        CHECK(w < dmax && dbuf[w * (size_t)(w < dmax)] == 0, "C03: no terminator in dest[0..dmax) after return");
    }
    if (g_calls_conv == 1 && !g_fail) {
        size_t r = g_ret;
        if (rc == EOK) {
            CHECK(retval == r, "C15/C06: returned count differs from the count the delegate produced");
            CHECK(r < dmax, "C06: success although the converted string plus terminator does not fit in dmax");
            if (gk < r) CHECK(dbuf[gk] == g_out_k, "C15/C06: a converted character was altered after the delegate stored it");
            if (gk >= r && gk < dmax) CHECK(dbuf[gk] == 0, "C08/C03: element behind the converted string is not zero after success");
        } else {
            if (gk < dmax) CHECK(dbuf[gk] == 0, "C04: failed conversion does not leave dest cleared");
            CHECK(r >= dmax || r == 0 || g_n_given < g_query, "C06/C15: conversion that fits (count < dmax) is reported as an error");
        }
    }
    if (g_calls_conv >= 1 && g_fail) {
        CHECK(rc != EOK, "C15: invalid sequence (delegate returned -1) is reported as success");
        if (gk < dmax) CHECK(dbuf[gk] == 0, "C04/C15: dest is not cleared after an invalid sequence");
    }
    CANARY(rc != EOK, "success reachable"); CANARY(g_calls_conv == 0, "delegate call reachable");
#else
    if (IN.ret_null) return;
    if (IN.dest_null) return;
    if (!usable) return;
    if (g_calls_conv == 1 && !g_fail) {
        size_t r = g_ret;
        if (rc == EOK) {
            CHECK(retval == r, "C15/C06: returned count differs from the count the delegate produced");
            if (gk < r) CHECK(dbuf[gk] == g_out_k, "C15/C06: a converted byte was altered after the delegate stored it");
        } else if (gk < dmax) CHECK(dbuf[gk] == 0, "C04: failed conversion does not leave dest cleared");
    }
    if (g_calls_conv >= 1 && g_fail) {
        CHECK(rc != EOK, "C15: unconvertible character (delegate returned -1) is reported as success");
        if (gk < dmax) CHECK(dbuf[gk] == 0, "C04/C15: dest is not cleared after an unconvertible character");
    }
    CANARY(rc != EOK, "success reachable");
#endif
#endif
}
VERIF_MAIN(harness)
