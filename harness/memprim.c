/* memprim.c - engine B (bounded, by enumeration) for the word-unrolled primitives of
 * src/mem/mem_primitives_lib.c.  Loop contracts cannot be used on them (do-while loops are
 * rejected by the legacy loop-contract transformation; 8-byte stores at symbolic offsets
 * exhaust memory), so every (length, alignment, relative placement) below the bound is
 * enumerated by CONCRETE loops in this harness - symbolic execution then unwinds the real code
 * concretely - while the buffer CONTENTS and the fill value stay symbolic.
 *
 *   -DFN=1 mem_prim_set   2 mem_prim_set16   3 mem_prim_set32
 *        4 mem_prim_move  5 mem_prim_move8   6 mem_prim_move16   7 mem_prim_move32
 *   -DOFF=<src - dest in elements>  (move only; |OFF| >= BIGOFF means "far apart")
 *   -DLMAX=<largest length>, -DL2LO/-DL2HI second length window (set only, reaches the
 *   16-word unrolled block)
 *
 * Checked per call, against plain byte-loop reference semantics, over the WHOLE buffer:
 *   C06  the addressed elements hold exactly the memmove / memset result
 *   C01  every other byte of the buffer is unchanged
 * (C07: memmove family exact for every placement; C18 value clause.)
 */
#include "verif.h"
#include "mem/mem_primitives_lib.h"

#ifndef LMAX
#define LMAX 40
#endif
#ifndef OFF
#define OFF 0
#endif
#if FN == 2 || FN == 6
typedef uint16_t EL;
#elif FN == 3 || FN == 7
typedef uint32_t EL;
#else
typedef uint8_t EL;
#endif
#define ES sizeof(EL)
#define PAD 8                        /* guard bytes in front / behind (multiple of 8) */
#define AOFF ((OFF) < 0 ? -(OFF) : (OFF))
#ifndef L2HI
#define L2HI 0
#define L2LO 1
#endif
#ifdef SINGLE
#define LTOP (LEN)
#else
#define LTOP ((L2HI) > (LMAX) ? (L2HI) : (LMAX))
#endif
#define BUFSZ (PAD + 8 + (LTOP + AOFF + 1) * ES + PAD)

int g_hcalls; errno_t g_herr; void *g_hptr;

struct { unsigned char buf[BUFSZ]; unsigned int value; } IN;

#ifndef VERIF_REPLAY
unsigned char nondet_uchar(void); unsigned int nondet_uint(void);
static void draw(void) { for (unsigned i = 0; i < BUFSZ; i++) IN.buf[i] = nondet_uchar(); IN.value = nondet_uint(); }
#else
static void draw(void)
{
#include "replay_in.h"
}
#endif

/* 8-aligned so that the alignment of (a + PAD + da) is da in both worlds */
static unsigned char a[BUFSZ] __attribute__((aligned(8)));
static unsigned char r[BUFSZ];
static unsigned char t[BUFSZ];

static void one(unsigned da, unsigned len)
{
    unsigned i;
    for (i = 0; i < BUFSZ; i++) { a[i] = IN.buf[i]; r[i] = IN.buf[i]; }
    unsigned dpos = PAD + da * (FN >= 4 ? 1 : 1) + (OFF < 0 ? AOFF * ES : 0);
#if FN >= 4
    unsigned spos = (unsigned)((int)dpos + (OFF) * (int)ES);
    /* reference: copy through a temporary */
    for (i = 0; i < len * ES; i++) t[i] = r[spos + i];
    for (i = 0; i < len * ES; i++) r[dpos + i] = t[i];
#if FN == 4
    mem_prim_move(a + dpos, a + spos, len);
#elif FN == 5
    mem_prim_move8(a + dpos, a + spos, len);
#elif FN == 6
    mem_prim_move16((uint16_t *)(a + dpos), (const uint16_t *)(a + spos), len);
#else
    mem_prim_move32((uint32_t *)(a + dpos), (const uint32_t *)(a + spos), len);
#endif
#else
    EL v = (EL)IN.value;
    for (i = 0; i < len * ES; i++) r[dpos + i] = (unsigned char)(v >> (8 * (i % ES)));   /* little endian */
#if FN == 1
    mem_prim_set(a + dpos, len, (uint8_t)v);
#elif FN == 2
    mem_prim_set16((uint16_t *)(a + dpos), len, v);
#else
    mem_prim_set32((uint32_t *)(a + dpos), len, v);
#endif
#endif
    int in_ok = 1, out_ok = 1;
    for (i = 0; i < BUFSZ; i++) {
        if (i >= dpos && i < dpos + len * ES) { if (a[i] != r[i]) in_ok = 0; }
        else if (a[i] != r[i]) out_ok = 0;
    }
#if FN >= 4
    CHECK(in_ok, "C06/C07: primitive result differs from the memmove reference (copy through a temporary) inside the addressed elements");
    CHECK(out_ok, "C01/C07: primitive modified a byte outside the addressed elements");
#else
    CHECK(in_ok, "C06/C18: addressed elements do not all hold the fill value after the set primitive");
    CHECK(out_ok, "C01/C18: set primitive changed a byte outside the requested elements");
#endif
}

void harness(void)
{
    draw();
#ifdef SINGLE
    /* one concrete (alignment, length) per run: the primitives that branch on pointer
       alignment ((uintptr_t)p & 7 stays symbolic in symex) are too costly otherwise */
    one(DA, LEN);
#else
    /* element alignment: dest at every offset 0..7 (bytes) resp. every element-aligned offset */
    for (unsigned da = 0; da < 8; da += ES) {
        for (unsigned len = (FN >= 4 ? 1 : 0); len <= LMAX; len++)
            one(da, len);
#if L2HI
        for (unsigned len = L2LO; len <= L2HI; len++)
            one(da, len);
#endif
    }
#endif
}
VERIF_MAIN(harness)
