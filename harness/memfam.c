/* memfam.c - engine C (loop-free, full domain) harness for the memory wrappers, verified
 * MODULARLY: under cbmc the word-unrolled primitives mem_prim_set* / mem_prim_move* are replaced by
 * their contracts (include/prim_contracts.h, --replace-call-with-contract), so every wrapper is
 * loop-free and all sizes stay symbolic over the full 64-bit range inside one arena object of
 * symbolic size.  Natively (-DVERIF_REPLAY) the real primitives are linked.
 *
 *  FN  1 memset_s   2 memset16_s  3 memset32_s  4 memzero_s  5 memzero16_s  6 memzero32_s
 *      7 memcpy_s   8 memmove_s   9 memcpy16_s 10 memmove16_s 11 memcpy32_s 12 memmove32_s
 *     13 wmemcpy_s 14 wmemmove_s
 * Serves C01 C02 C04 C05 C06 C07 C18.
 */
#include "verif.h"
#include "mem/mem_primitives_lib.h"
#include <wchar.h>
#ifndef VERIF_REPLAY
#include "prim_contracts.h"
#endif

#if FN == 2 || FN == 5 || FN == 9 || FN == 10
#define E 2
#elif FN == 3 || FN == 6 || FN == 11 || FN == 12 || FN == 13 || FN == 14
#define E 4
#else
#define E 1
#endif
#define IS_SET (FN <= 6)
#define IS_ZERO (FN >= 4 && FN <= 6)
#define IS_MOVE (FN == 8 || FN == 10 || FN == 12 || FN == 14)
#define IS_WMEM (FN == 13 || FN == 14)

size_t gk, gke;
unsigned long g_ev, g_last_store, g_last_barrier;
int g_hcalls; errno_t g_herr; void *g_hptr;
static void verif_handler(const char *restrict msg, void *restrict ptr, errno_t error)
{ (void)msg; g_hcalls++; g_herr = error; g_hptr = ptr; }

#ifndef VERIF_REPLAY
/* ghost bodies for the barrier intrinsic MEMORY_BARRIER expands to, and for explicit_bzero */
void __builtin_ia32_mfence(void) { g_last_barrier = ++g_ev; }
void _mm_mfence(void) { g_last_barrier = ++g_ev; }
void explicit_bzero(void *s, size_t n)
{
    __CPROVER_precondition(n == 0 || __CPROVER_w_ok(s, n), "memset destination region writeable (explicit_bzero)");
    if (n > 0) { unsigned char z[n]; __CPROVER_array_set(z, 0); __CPROVER_array_replace((unsigned char *)s, z); }
    g_last_store = ++g_ev; g_last_barrier = ++g_ev;   /* explicit_bzero is its own barrier */
}
#endif

struct {
    unsigned char dest_null, src_null, bos_known, sbos_known;
    size_t asz, doff, soff;       /* bytes; doff/soff multiples of E */
    size_t dmax, n;               /* as passed: dmax (bytes or elements, see the function), n/slen/count */
    unsigned int value;
    size_t k;                     /* arbitrary byte index into the arena */
    unsigned char vk, vsk;        /* arena[k] and the source byte that lands on k */
} IN;

#ifndef VERIF_REPLAY
size_t nondet_size_t(void); unsigned char nondet_uchar(void); unsigned int nondet_uint(void);
static void draw(void)
{
    IN.dest_null = nondet_uchar(); IN.src_null = nondet_uchar(); IN.bos_known = nondet_uchar(); IN.sbos_known = nondet_uchar();
    IN.asz = nondet_size_t(); IN.doff = nondet_size_t(); IN.soff = nondet_size_t();
    IN.dmax = nondet_size_t(); IN.n = nondet_size_t(); IN.value = nondet_uint(); IN.k = nondet_size_t();
    IN.vk = nondet_uchar(); IN.vsk = nondet_uchar();
}
#else
static void draw(void)
{
#include "replay_in.h"
}
#endif

#ifndef ASZ_LOG
#define ASZ_LOG 30
#endif
#define ASZ_MAX ((size_t)1 << ASZ_LOG)

void harness(void)
{
    draw();
    ASSUME(IN.dest_null <= 1 && IN.src_null <= 1 && IN.bos_known <= 1 && IN.sbos_known <= 1);
    ASSUME(IN.asz >= E && IN.asz <= ASZ_MAX && IN.asz % E == 0);
    ASSUME(IN.doff < IN.asz && IN.soff < IN.asz && IN.doff % E == 0 && IN.soff % E == 0);
    size_t asz = IN.asz, doff = IN.doff, soff = IN.soff;
    unsigned char *arena = malloc(asz);
    ASSUME(arena != NULL);
#ifdef VERIF_REPLAY
    for (size_t i = 0; i < asz; i++) arena[i] = (unsigned char)(i * 7 + 3);
#endif
    size_t dext = asz - doff, sext = asz - soff;   /* real bytes behind dest / src */
    size_t dmax = IN.dmax, n = IN.n;
    size_t k = IN.k;
    ASSUME(k < asz);
    /* declared sizes in bytes */
    size_t dbytes, nbytes;
    int mul_ovf = 0;
#if IS_ZERO
    dbytes = n * E; nbytes = n * E; mul_ovf = (n > ((size_t)-1) / E); dmax = n;
#elif IS_WMEM
    dbytes = dmax * E; nbytes = n * E; mul_ovf = (dmax > ((size_t)-1) / E) || (n > ((size_t)-1) / E);
#else
    dbytes = dmax; nbytes = n * E; mul_ovf = (n > ((size_t)-1) / E);
#endif
    /* memset_s, memset16/32_s, memcpy16/32_s and memmove16/32_s replace the declared dmax by the
       object size when that is known (`dmax = destbos;`).  That contradicts C01/C05 as stated and
       is recorded as ONE finding (obligation "known object size replaces the declared dmax" below);
       every other obligation is evaluated against the size the function actually works with. */
#define OVERRIDES (FN == 1 || FN == 2 || FN == 3 || FN == 9 || FN == 10 || FN == 11 || FN == 12)
    size_t dbytes_decl = dbytes;
    if (OVERRIDES && IN.bos_known && !mul_ovf && (dbytes > 0 || IS_SET) && dbytes <= dext) dbytes = dext;
    /* element counts whose byte size wraps around 2^64 are outside the explored input space: the
       16/32-bit and wmem functions accept them (recorded in DESIGN.md 9.5; wmemcpy_s then copies the
       truncated count past both objects) and every later obligation would only restate that */
    ASSUME(!mul_ovf);
    ASSUME(dbytes % E == 0);     /* byte sizes of the 16/32-bit functions are whole elements */
    /* truthfulness: the declared dest size is really there unless it is above the RSIZE limit */
    size_t destbos = IN.bos_known ? dext : BOS_UNKNOWN;
    size_t srcbos = IN.sbos_known ? sext : BOS_UNKNOWN;
    if (!IN.bos_known) ASSUME(mul_ovf || dbytes > RSIZE_MAX_MEM || dbytes <= dext);
#if !IS_SET
    /* src really has n elements, unless the call must be rejected anyway */
    if (!IN.sbos_known) ASSUME(mul_ovf || nbytes <= sext || nbytes > dbytes || (!IN.bos_known && dbytes > RSIZE_MAX_MEM));
#endif
    /* plant the two observed bytes */
    arena[k] = IN.vk;
    size_t ksrc = 0; int k_in_copy = 0;
#if !IS_SET
    if (!mul_ovf && k >= doff && k - doff < nbytes && soff + (k - doff) < asz) {
        ksrc = soff + (k - doff); k_in_copy = 1;
        if (ksrc != k) arena[ksrc] = IN.vsk;
    }
#endif
    /* the primitives' contracts speak about one arbitrary index: make it the observed one */
    gk = (k >= doff) ? (k - doff) : 0;
    gke = gk / E;
    unsigned char old_k = arena[k];
    unsigned char old_src_k = k_in_copy ? arena[ksrc] : 0;
    void *dest = IN.dest_null ? NULL : (void *)(arena + doff);
    void *src = IN.src_null ? NULL : (void *)(arena + soff);

    g_hcalls = 0; g_herr = 0; g_ev = 0; g_last_store = 0; g_last_barrier = 0;
    set_mem_constraint_handler_s(verif_handler);
    thrd_set_mem_constraint_handler_s(verif_handler);
    errno_t rc;
#if FN == 1
    rc = _memset_s_chk(dest, dmax, (int)IN.value, n, destbos);
#elif FN == 2
    rc = _memset16_s_chk(dest, dmax, (uint16_t)IN.value, n, destbos);
#elif FN == 3
    rc = _memset32_s_chk(dest, dmax, (uint32_t)IN.value, n, destbos);
#elif FN == 4
    rc = _memzero_s_chk(dest, n, destbos);
#elif FN == 5
    rc = _memzero16_s_chk(dest, n, destbos);
#elif FN == 6
    rc = _memzero32_s_chk(dest, n, destbos);
#elif FN == 7
    rc = _memcpy_s_chk(dest, dmax, src, n, destbos, srcbos);
#elif FN == 8
    rc = _memmove_s_chk(dest, dmax, src, n, destbos, srcbos);
#elif FN == 9
    rc = _memcpy16_s_chk(dest, dmax, src, n, destbos, srcbos);
#elif FN == 10
    rc = _memmove16_s_chk(dest, dmax, src, n, destbos, srcbos);
#elif FN == 11
    rc = _memcpy32_s_chk(dest, dmax, src, n, destbos, srcbos);
#elif FN == 12
    rc = _memmove32_s_chk(dest, dmax, src, n, destbos, srcbos);
#elif FN == 13
    rc = _wmemcpy_s_chk(dest, dmax, src, n, destbos, srcbos);
#elif FN == 14
    rc = _wmemmove_s_chk(dest, dmax, src, n, destbos, srcbos);
#endif

    /* ---- reference model ----------------------------------------------------------------- */
    int v_dnull = dest == NULL;
    int zero_req = (n == 0) && !IS_ZERO;            /* C11: n == 0 is a valid no-op */
    int v_zero = !IS_SET ? (dbytes == 0 && !mul_ovf) : (IS_ZERO ? n == 0 : 0);
    /* with a known object size the library takes that size as the authority (sizes above
       RSIZE_MAX_MEM are accepted when they fit the object); the RSIZE limit binds otherwise */
    int v_max = mul_ovf || (!IN.bos_known && dbytes > RSIZE_MAX_MEM);
    int v_ovf = IN.bos_known && !mul_ovf && dbytes > dext;
    int v_snull = !IS_SET && src == NULL;
    int v_val = (FN == 1) && (int)IN.value > 255;
    int v_n = !mul_ovf && nbytes > dbytes;         /* n exceeds dmax: ESNOSPC / ESLEMAX */
    int v_sovf = !IS_SET && IN.sbos_known && !mul_ovf && nbytes > sext;
    int usable = !v_dnull && !v_max && !v_ovf && dbytes > 0;
    int inside_d = !v_dnull && k >= doff && k - doff < dbytes && !mul_ovf;   /* k inside dest[0..dmax) */
    int inside_n = !v_dnull && k >= doff && k - doff < nbytes && !mul_ovf;   /* k inside the first n elements */

    /* C05 */
    CHECK(rc == EOK ? g_hcalls == 0 : g_hcalls == 1, "C05: handler invoked exactly once iff the call fails");
    CHECK(rc == EOK || g_herr == rc, "C05: handler receives the code that is returned");
    int early = v_dnull || (v_zero && !zero_req) || (v_max && !zero_req) || (v_ovf && !zero_req);
    if (!zero_req && (early || v_snull || v_val || v_n || v_sovf)) {
        CHECK(rc != EOK, "C05: violated argument constraint is not reported");
    }
    if (rc != EOK && !zero_req)
        CHECK((v_dnull && rc == ESNULLP) || (v_zero && rc == ESZEROL) || (v_max && rc == ESLEMAX) ||
              (v_ovf && (rc == EOVERFLOW || rc == ESLEMAX)) || (v_snull && rc == ESNULLP) || (v_val && rc == ESLEMAX) ||
              (v_n && (rc == ESNOSPC || rc == ESLEMAX)) || (v_sovf && (rc == EOVERFLOW || rc == ESLEMAX)) ||
              (rc == ESOVRLP),
              "C05: returned code names a constraint that is not violated");
    if (!v_dnull && v_max && !IN.bos_known && !zero_req)
        CHECK(arena[k] == old_k, "C05: size above RSIZE_MAX_MEM must be rejected before dest is touched");

    /* C01: nothing outside dest[0..dmax) is ever modified */
    CHECK(inside_d || arena[k] == old_k, "C01: byte outside dest[0..dmax) modified");
    if (OVERRIDES && IN.bos_known && !v_dnull && dbytes_decl < dbytes && !zero_req)
        CHECK(!(rc == EOK && nbytes > dbytes_decl) && !(k >= doff && k - doff >= dbytes_decl && arena[k] != old_k),
              "C01/C05: the known object size replaces the declared dmax (dmax := destbos): more than dmax bytes accepted or written");
    if (zero_req) {
        CHECK(rc == EOK || v_dnull, "C05: zero-length request must succeed");
        CHECK(arena[k] == old_k, "C01: zero-length request modified memory");
        return;
    }
    if (!usable) return;

#if IS_SET
    /* C06 / C18 */
    if (rc == EOK) {
        unsigned char want = (unsigned char)(IS_ZERO ? 0 : (IN.value >> (8 * ((k - doff) % E))));
        if (inside_n) CHECK(arena[k] == want, "C06/C18: a requested byte does not hold the fill value after success");
        else CHECK(arena[k] == old_k, "C01/C18: more than the requested bytes were changed");
#ifndef VERIF_REPLAY
        CHECK(g_last_store == 0 || g_last_barrier > g_last_store, "C18: no memory barrier after the last store of a successful erase");
        CANARY(g_last_store == 0, "a store primitive ran");
#endif
    } else if (v_n && !v_val) {
        /* C11: on n > dmax the whole dmax is filled and the error is returned */
        CHECK(inside_d || arena[k] == old_k, "C01: byte outside dest[0..dmax) modified");
    }
    CANARY(rc != EOK, "success reachable");
#if !IS_ZERO
    CANARY(rc != ESNOSPC, "n > dmax reachable");
#endif
#else
    /* overlap classification in bytes */
    size_t w0 = doff, w1 = doff + dbytes, r0 = soff, r1 = soff + nbytes;
    int same = (doff == soff);
    int ovl = !v_snull && !mul_ovf && nbytes > 0 && r0 < w1 && w0 < r1;
    if (rc == EOK) {
        CHECK(!v_snull && !v_n && !v_sovf, "C05: invalid operands accepted");
        if (!IS_MOVE) CHECK(!ovl || same, "C07: overlapping operands copied without an overlap error");
        if (inside_n && (IS_MOVE || !ovl || same))
            CHECK(arena[k] == old_src_k, "C06/C07: copied byte differs from the source byte (memmove: as if through a temporary)");
        if (!inside_n) CHECK(arena[k] == old_k, "C06/C01: byte outside the copied elements changed");
    } else {
        /* C04: failed copy leaves dest zeroed (all dmax bytes) */
        if (inside_d) CHECK(arena[k] == 0, "C04: failed memory copy does not zero all of dest");
        if (rc == ESOVRLP) CHECK(ovl && !same && !IS_MOVE, "C07: disjoint (or identical, or memmove) operands rejected as overlapping");
        /* source not overlapping dest is never modified */
        if (!inside_d) CHECK(arena[k] == old_k, "C04: failed call modified memory outside dest");
    }
    CANARY(rc != EOK, "success reachable");
#if !IS_MOVE
    CANARY(rc != ESOVRLP, "overlap error reachable");
#endif
    CANARY(rc != ESNOSPC, "no-space error reachable");
#endif
}
VERIF_MAIN(harness)
