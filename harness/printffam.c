/* printffam.c - engine B (bounded) harness for the narrow printf_s engine through its public
 * entry point _sprintf_s_chk (wrappers _vsprintf_s_chk / _vsnprintf_s_chk + safec_vsnprintf_s + safec_out_buffer):
 * C11 (integer / char / string conversions), C03, C04, C08, C09 (engine never stores for %n), C05.
 * One CONCRETE format string per run (-DFMT=<string literal>), arguments symbolic:
 *   up to three ints (|v| <= 99999), two strings of at most 4 characters, one char, dmax 1..DMAXMAX.
 * The expected text is computed by a reference renderer of the C11 7.21.6.1 rules for the
 * directive subset  % [-0+ #]* width? (.prec)? (hh|h|l|ll|z)? [diuxXocs%]  written here.
 * For a format containing a %n conversion (any flags/width/length) the call must fail, report
 * once, and leave the would-be target untouched.
 */
#include "verif.h"
#include <stdarg.h>
#include <wchar.h>
#ifndef FMT
#define FMT "%s"
#endif
#ifndef DMAXMAX
#define DMAXMAX 12
#endif
#define SL 4

int g_hcalls; errno_t g_herr; void *g_hptr;
static void verif_handler(const char *restrict msg, void *restrict ptr, errno_t error)
{ (void)msg; (void)ptr; g_hcalls++; g_herr = error; }

struct { size_t dmax; int iv[3]; char s[2][SL + 1]; unsigned char c; unsigned char d0[DMAXMAX]; } IN;
#ifndef VERIF_REPLAY
size_t nondet_size_t(void); int nondet_int(void); unsigned char nondet_uchar(void);
static void draw(void)
{
    IN.dmax = nondet_size_t(); IN.c = nondet_uchar();
    for (int i = 0; i < 3; i++) IN.iv[i] = nondet_int();
    for (int j = 0; j < 2; j++) for (int i = 0; i <= SL; i++) IN.s[j][i] = (char)nondet_uchar();
    for (int i = 0; i < DMAXMAX; i++) IN.d0[i] = nondet_uchar();
}
#else
static void draw(void)
{
#include "replay_in.h"
}
#endif

/* ---- reference renderer ------------------------------------------------------------------ */
#define OUTMAX 64
static char ref[OUTMAX]; static int reflen; static int ref_has_n; static int ref_unsupported;
static void put(char c) { if (reflen < OUTMAX - 1) ref[reflen++] = c; }
static void render(const char *f)
{
    int ai = 0, si = 0;
    reflen = 0; ref_has_n = 0; ref_unsupported = 0;
    while (*f) {
        if (*f != '%') { put(*f++); continue; }
        f++;
        int left = 0, zero = 0, plus = 0, space = 0, alt = 0;
        for (;; f++) {
            if (*f == '-') left = 1; else if (*f == '0') zero = 1; else if (*f == '+') plus = 1;
            else if (*f == ' ') space = 1; else if (*f == '#') alt = 1; else break;
        }
        int width = 0, prec = -1;
        while (*f >= '0' && *f <= '9') width = width * 10 + (*f++ - '0');
        if (*f == '.') { f++; prec = 0; while (*f >= '0' && *f <= '9') prec = prec * 10 + (*f++ - '0'); }
        int lmod = 0;    /* 1 hh 2 h 3 l 4 ll 5 z */
        if (*f == 'h') { f++; lmod = 2; if (*f == 'h') { f++; lmod = 1; } }
        else if (*f == 'l') { f++; lmod = 3; if (*f == 'l') { f++; lmod = 4; } }
        else if (*f == 'z' || *f == 'j' || *f == 't') { f++; lmod = 5; }
        char conv = *f; if (conv) f++;
        char tmp[40]; int n = 0;
        if (conv == 'n') { ref_has_n = 1; return; }
        else if (conv == '%') { put('%'); continue; }
        else if (conv == 'c') { tmp[n++] = (char)IN.c; prec = -1; zero = 0; }
        else if (conv == 's') {
            const char *s = IN.s[si < 2 ? si : 1]; si++;
            int l = 0; while (l < SL && s[l] && (prec < 0 || l < prec)) l++;
            int pad = width > l ? width - l : 0;
            if (!left) while (pad-- > 0) put(' ');
            for (int i = 0; i < l; i++) put(s[i]);
            if (left) while (pad-- > 0) put(' ');
            continue;
        }
        else if (conv == 'd' || conv == 'i' || conv == 'u' || conv == 'x' || conv == 'X' || conv == 'o') {
            int v = IN.iv[ai < 3 ? ai : 2]; ai++;
            int is_signed = (conv == 'd' || conv == 'i');
            unsigned long long mag; int neg = 0;
            if (is_signed) {
                long long sv = lmod == 1 ? (signed char)v : lmod == 2 ? (short)v : (long long)v;
                neg = sv < 0; mag = neg ? (unsigned long long)(-sv) : (unsigned long long)sv;
            } else {
                mag = lmod == 1 ? (unsigned char)v : lmod == 2 ? (unsigned short)v : lmod >= 3 ? (unsigned long long)(long long)v : (unsigned int)v;
            }
            unsigned base = (conv == 'x' || conv == 'X') ? 16 : conv == 'o' ? 8 : 10;
            char digs[24]; int nd = 0;
            if (!(mag == 0 && prec == 0)) do { unsigned d = (unsigned)(mag % base); digs[nd++] = (char)(d < 10 ? '0' + d : (conv == 'X' ? 'A' : 'a') + d - 10); mag /= base; } while (mag && nd < 22);
            int ndig = nd; if (prec > ndig) ndig = prec;
            char sign = 0; if (is_signed) { if (neg) sign = '-'; else if (plus) sign = '+'; else if (space) sign = ' '; }
            int pre = 0; char prefix[2];
            if (alt && base == 16 && IN.iv[(ai - 1) < 3 ? ai - 1 : 2] != 0) { prefix[0] = '0'; prefix[1] = conv; pre = 2; }
            if (alt && base == 8 && !(nd > 0 && ndig > nd) ) { if (!(nd == ndig && nd > 0 && digs[nd - 1] == '0')) { ndig = ndig + 1 > nd + 1 ? ndig : nd + 1; } }
            int total = ndig + (sign ? 1 : 0) + pre;
            int pad = width > total ? width - total : 0;
            if (!left && !(zero && prec < 0)) while (pad-- > 0) put(' ');
            if (sign) put(sign);
            for (int i = 0; i < pre; i++) put(prefix[i]);
            if (!left && zero && prec < 0) while (pad-- > 0) put('0');
            for (int i = ndig; i > nd; i--) put('0');
            for (int i = nd - 1; i >= 0; i--) put(digs[i]);
            if (left) while (pad-- > 0) put(' ');
            continue;
        } else { ref_unsupported = 1; return; }
        /* %c */
        { int pad = width > n ? width - n : 0;
          if (!left) while (pad-- > 0) put(' ');
          for (int i = 0; i < n; i++) put(tmp[i]);
          if (left) while (pad-- > 0) put(' '); }
    }
}

void harness(void)
{
    draw();
    ASSUME(IN.dmax >= 1 && IN.dmax <= DMAXMAX);
    for (int i = 0; i < 3; i++) ASSUME(IN.iv[i] >= -99999 && IN.iv[i] <= 99999);
    for (int j = 0; j < 2; j++) ASSUME(IN.s[j][SL] == 0);
    ASSUME(IN.c != 0);
    size_t dmax = IN.dmax;
    char *dest = malloc(DMAXMAX);                 /* constant-size object; declared extent dmax */
    ASSUME(dest != NULL);
    for (size_t i = 0; i < DMAXMAX; i++) dest[i] = (char)IN.d0[i];
    long sentinel[2] = {0x5a5a5a5a5a5a5a5aL, 0x5a5a5a5a5a5a5a5aL};
    set_str_constraint_handler_s(verif_handler); thrd_set_str_constraint_handler_s(verif_handler);
    g_hcalls = 0;
    render(FMT);
    int ret;
    if (ref_has_n) {
        /* every argument slot points at the sentinel: whatever the engine would store lands there */
        ret = _sprintf_s_chk(dest, dmax, BOS_UNKNOWN, FMT, &sentinel[0], &sentinel[0], &sentinel[0]);
        CHECK(sentinel[0] == 0x5a5a5a5a5a5a5a5aL && sentinel[1] == 0x5a5a5a5a5a5a5a5aL, "C09: a %n conversion stored through its argument");
        CHECK(ret < 0, "C09: a format containing a %n conversion is not rejected");
        CHECK(g_hcalls == 1, "C09/C05: rejected %n format not reported exactly once");
        for (size_t i = 0; i < DMAXMAX; i++) if (i < dmax) CHECK(dest[i] == 0, "C04: dest not cleared after a rejected format");
        CANARY(ret >= 0, "rejection reachable");
        return;
    }
#ifdef ENTRY_SNPRINTF
    /* the (documented) truncating entry point: only C01/C03/C04 and the fitting case are checked */
    ret = _snprintf_s_chk(dest, dmax, BOS_UNKNOWN, FMT, ARGS);
#elif defined(ARGS)
    ret = _sprintf_s_chk(dest, dmax, BOS_UNKNOWN, FMT, ARGS);
#else
    ret = _sprintf_s_chk(dest, dmax, BOS_UNKNOWN, FMT);
#endif
    /* C01 frame / C03 */
    for (size_t i = 0; i < DMAXMAX; i++) if (i >= dmax) CHECK(dest[i] == (char)IN.d0[i], "C01: byte at or beyond dmax modified");
    { int t = 0; for (size_t i = 0; i < DMAXMAX; i++) if (i < dmax && dest[i] == 0) t = 1; CHECK(t, "C03: formatted output leaves dest without a terminator within dmax"); }
    if (ref_unsupported) return;
    if ((size_t)reflen < dmax) {
        CHECK(ret == reflen, "C11: returned count differs from the length C snprintf produces");
        if (ret == reflen) {
            for (int i = 0; i < OUTMAX; i++) if (i < reflen) CHECK(dest[i] == ref[i], "C11: formatted text differs from what C snprintf produces");
            for (size_t i = 0; i < DMAXMAX; i++) if (i >= (size_t)reflen && i < dmax) CHECK(dest[i] == 0, "C08/C03: byte behind the formatted text is not zero");
        }
        CHECK(g_hcalls == 0, "C05: handler invoked although the output fits");
    } else {
#ifdef ENTRY_SNPRINTF
        if (ret >= 0) return;      /* documented truncation of snprintf_s (terminator checked above) */
#endif
        CHECK(ret < 0, "C11/C06: output that does not fit in dmax is not reported as an error");
        if (ret < 0) {
            for (size_t i = 0; i < DMAXMAX; i++) if (i < dmax) CHECK(dest[i] == 0, "C04: dest not cleared after the output did not fit");
            CHECK(g_hcalls == 1, "C05: no-space not reported exactly once");
        }
    }
    CANARY(ret < 0, "success reachable");
    CANARY(ret >= 0, "failure reachable");
}
VERIF_MAIN(harness)
