/* sortfam.c - engine B (bounded) harness for qsort_s / bsearch_s (C16; C01 C02 C12 frame).
 *  -DFN=1 qsort_s   -DFN=2 bsearch_s      -DSZ=<element size in bytes>   -DNM=<max nmemb>
 * Elements: SZ bytes, the key is the first min(SZ,4) bytes read as an unsigned little-endian
 * number, the rest is payload; everything symbolic.  The comparator records every argument:
 * both must be element-aligned pointers inside [base, base + nmemb*SZ) (bsearch: the first is
 * the key object), and the context pointer must be the caller's.
 * qsort_s post: adjacent elements ordered; result is a permutation (for an arbitrary original
 * element: equal byte-wise occurrence counts before and after); nothing outside the array
 * changed.  bsearch_s post: a returned element compares equal; NULL only if no element does
 * (array assumed sorted).
 */
#include "verif.h"
#include <errno.h>
#ifndef SZ
#define SZ 4
#endif
#ifndef NM
#define NM 4
#endif
#define KB (SZ < 4 ? SZ : 4)
#define GUARD 8
#define TOT (GUARD + NM * SZ + GUARD)

int g_hcalls; errno_t g_herr; void *g_hptr;
static void verif_handler(const char *restrict msg, void *restrict ptr, errno_t error)
{ (void)msg; (void)ptr; g_hcalls++; g_herr = error; }

struct { size_t nmemb; unsigned char mem[TOT]; unsigned char key[SZ]; size_t pick; unsigned char bos_known; } IN;
#ifndef VERIF_REPLAY
size_t nondet_size_t(void); unsigned char nondet_uchar(void);
static void draw(void)
{
    IN.nmemb = nondet_size_t(); IN.pick = nondet_size_t(); IN.bos_known = nondet_uchar();
    for (unsigned i = 0; i < TOT; i++) IN.mem[i] = nondet_uchar();
    for (unsigned i = 0; i < SZ; i++) IN.key[i] = nondet_uchar();
}
#else
static void draw(void)
{
#include "replay_in.h"
}
#endif

static unsigned char buf[TOT];
static unsigned char *g_base; static size_t g_n; static int g_ctx_cookie; static const void *g_key;
static int g_bad_ptr, g_bad_ctx, g_ncmp;

static unsigned keyof(const unsigned char *e)
{ unsigned k = 0; for (int i = 0; i < KB; i++) k |= (unsigned)e[i] << (8 * i); return k; }

static int in_array(const void *p)
{
    const unsigned char *q = (const unsigned char *)p;
    if (q < g_base || q >= g_base + g_n * SZ) return 0;
    return ((size_t)(q - g_base) % SZ) == 0;
}
static int cmp(const void *a, const void *b, void *ctx)
{
    g_ncmp++;
    if (ctx != (void *)&g_ctx_cookie) g_bad_ctx = 1;
#if FN == 1
    if (!in_array(a) || !in_array(b)) { g_bad_ptr = 1; return 0; }
#else
    if (a != g_key || !in_array(b)) { g_bad_ptr = 1; return 0; }
#endif
    unsigned ka = keyof((const unsigned char *)a), kb = keyof((const unsigned char *)b);
    return ka < kb ? -1 : ka > kb ? 1 : 0;
}

void harness(void)
{
    draw();
    size_t n = IN.nmemb;
    ASSUME(n <= NM && IN.bos_known <= 1);
    for (unsigned i = 0; i < TOT; i++) buf[i] = IN.mem[i];
    g_base = buf + GUARD; g_n = n; g_bad_ptr = g_bad_ctx = g_ncmp = 0; g_hcalls = 0;
    set_str_constraint_handler_s(verif_handler); thrd_set_str_constraint_handler_s(verif_handler);
    set_mem_constraint_handler_s(verif_handler); thrd_set_mem_constraint_handler_s(verif_handler);
    size_t bos = IN.bos_known ? (size_t)(NM * SZ + GUARD) : BOS_UNKNOWN;
#if FN == 1
    errno_t rc = _qsort_s_chk(g_base, n, SZ, cmp, &g_ctx_cookie, bos);
    CHECK(rc == EOK && g_hcalls == 0, "C05: qsort_s reports an error on valid operands");
    CHECK(!g_bad_ptr, "C16: comparator called with a pointer that is not an element of the array");
    CHECK(!g_bad_ctx, "C16: comparator not given the caller's context");
    /* ordered */
    for (size_t i = 0; i + 1 < NM; i++) if (i + 1 < n)
        CHECK(keyof(g_base + i * SZ) <= keyof(g_base + (i + 1) * SZ), "C16: qsort_s result is not ordered");
    /* permutation: occurrence count of an arbitrary original element is preserved */
    size_t pk = IN.pick; ASSUME(pk < NM);
    if (pk < n) {
        unsigned before = 0, after = 0;
        for (size_t i = 0; i < NM; i++) if (i < n) {
            int eb = 1, ea = 1;
            for (unsigned j = 0; j < SZ; j++) {
                if (IN.mem[GUARD + i * SZ + j] != IN.mem[GUARD + pk * SZ + j]) eb = 0;
                if (g_base[i * SZ + j] != IN.mem[GUARD + pk * SZ + j]) ea = 0;
            }
            before += eb; after += ea;
        }
        CHECK(before == after, "C16: qsort_s result is not a permutation of the original elements (byte-wise)");
    }
    /* frame */
    for (unsigned i = 0; i < TOT; i++) if (i < GUARD || i >= GUARD + n * SZ)
        CHECK(buf[i] == IN.mem[i], "C16/C01: qsort_s modified memory outside nmemb*size bytes");
    CANARY(g_ncmp < 3, "at least three comparisons reachable");
#else
    /* sorted input */
    for (size_t i = 0; i + 1 < NM; i++) if (i + 1 < n) ASSUME(keyof(g_base + i * SZ) <= keyof(g_base + (i + 1) * SZ));
    static unsigned char keyobj[SZ];
    for (unsigned j = 0; j < SZ; j++) keyobj[j] = IN.key[j];
    g_key = keyobj;
    void *r = _bsearch_s_chk(keyobj, g_base, n, SZ, cmp, &g_ctx_cookie, bos);
    CHECK(g_hcalls == 0, "C05: bsearch_s reports an error on valid operands");
    CHECK(!g_bad_ptr, "C16: comparator called with a pointer outside the array / not the key");
    CHECK(!g_bad_ctx, "C16: comparator not given the caller's context");
    int exists = 0;
    for (size_t i = 0; i < NM; i++) if (i < n && keyof(g_base + i * SZ) == keyof(keyobj)) exists = 1;
    if (r != NULL) {
        CHECK(in_array(r), "C16: bsearch_s returns a pointer that is not an element of the array");
        if (in_array(r)) CHECK(keyof((unsigned char *)r) == keyof(keyobj), "C16: bsearch_s returns an element that does not match the key");
    } else CHECK(!exists, "C16: bsearch_s misses an element that exists in the sorted array");
    for (unsigned i = 0; i < TOT; i++) CHECK(buf[i] == IN.mem[i], "C16/C10: bsearch_s modified the array");
    CANARY(r == NULL, "found reachable"); CANARY(r != NULL || n < 2, "not-found reachable");
#endif
}
VERIF_MAIN(harness)
