/* fmtfam.c - engine B (bounded) harness for C09 on the DELEGATING formatted-I/O entry points
 * (6 narrow + 6 wide scanf_s, 8 wide printf_s): they pre-scan the format and hand it to libc.
 * The libc delegate is an assumed contract (A3) whose REQUIRES clause is
 *      "the format contains no %n conversion directive"
 * decided by a reference scanner of the C directive grammar written here.  The entry point's
 * pre-scan must establish it for every format string of at most FL characters over the alphabet
 * { % n l h 5 * . d a } (a = any other letter).
 * The requires clause is split into three obligations so that recorded findings stay specific:
 *   plain   : the first "%n" text in the format is a real directive   (what the pre-scan targets)
 *   modified: a real %n directive carries flags / width / '*' / a length modifier (%ln %5n %hhn)
 *   hidden  : a real %n directive comes after an earlier "%n" text that is not one ("%%n...%n")
 *  -DFN: 1 sscanf_s 2 vsscanf_s 3 fscanf_s 4 vfscanf_s 5 scanf_s 6 vscanf_s
 *        7 swscanf_s 8 vswscanf_s 9 fwscanf_s 10 vfwscanf_s 11 wscanf_s 12 vwscanf_s
 *        13 swprintf_s 14 vswprintf_s 15 snwprintf_s 16 vsnwprintf_s 17 fwprintf_s 18 vfwprintf_s
 *        19 wprintf_s 20 vwprintf_s
 */
#include "verif.h"
#include <wchar.h>
#include <stdarg.h>
#include <errno.h>
#ifndef FL
#define FL 5
#endif
#if FN >= 7
typedef wchar_t CH;
#else
typedef char CH;
#endif
#define IS_PRINTF (FN >= 13)

int g_hcalls; errno_t g_herr; void *g_hptr;
static void verif_handler(const char *restrict msg, void *restrict ptr, errno_t error)
{ (void)msg; (void)ptr; g_hcalls++; g_herr = error; }

/* ---- reference scanner of the directive grammar */
static int g_plain, g_modified, g_hidden, g_pctpct, g_delegated;
static void scan_fmt(const CH *f)
{
    int seen_pn_text = 0;            /* an earlier "%n" character pair that was not a directive */
    int after_literal = 0;           /* the previous token was the literal "%%" */
    g_plain = g_modified = g_hidden = g_pctpct = 0;
    for (int i = 0; i < FL && f[i]; ) {
        if (f[i] != '%') { i++; after_literal = 0; continue; }
        int start = i;
        i++;
        if (i < FL && f[i] == '%') {                       /* literal percent */
            if (i + 1 < FL && f[i + 1] == 'n') seen_pn_text = 1;    /* "%%n": the text %n, not a directive */
            i++; after_literal = 1; continue;
        }
        int mod = 0;
        while (i < FL && (f[i] == '5' || f[i] == '*' || f[i] == '.' || f[i] == 'l' || f[i] == 'h')) { mod = 1; i++; }
        if (i < FL && f[i] == 'n') {
            if (mod) g_modified = 1;
            else if (after_literal || (start > 0 && f[start - 1] == '%')) g_pctpct = 1;
            else if (seen_pn_text) g_hidden = 1;
            else g_plain = 1;
            i++;
        } else if (i < FL && f[i]) i++;
        after_literal = 0;
    }
}
static CH g_fmt[FL + 1];
static void delegate_called(const CH *fmt)
{
    g_delegated = 1;
    __CPROVER_precondition(!g_plain, "C09: format with a plain %n directive reaches the libc formatter");
    __CPROVER_precondition(!g_modified, "C09: format with a %n directive carrying width/length modifier reaches the libc formatter");
    __CPROVER_precondition(!g_hidden, "C09: format with a %n directive behind an escaped-percent text reaches the libc formatter");
    __CPROVER_precondition(!g_pctpct, "C09: format with a %n directive directly preceded by a percent character reaches the libc formatter");
    (void)fmt;
}
int nondet_int(void);
static int stub_ret(void) { int r = nondet_int(); __CPROVER_assume(r >= -1 && r <= 1000); return r; }
#ifndef VERIF_REPLAY
int vsscanf(const char *s, const char *f, va_list ap) { (void)s; (void)ap; delegate_called((const CH *)f); return stub_ret(); }
int vfscanf(FILE *s, const char *f, va_list ap) { (void)s; (void)ap; delegate_called((const CH *)f); return stub_ret(); }
int vscanf(const char *f, va_list ap) { (void)ap; delegate_called((const CH *)f); return stub_ret(); }
int vswscanf(const wchar_t *s, const wchar_t *f, va_list ap) { (void)s; (void)ap; delegate_called((const CH *)f); return stub_ret(); }
int vfwscanf(FILE *s, const wchar_t *f, va_list ap) { (void)s; (void)ap; delegate_called((const CH *)f); return stub_ret(); }
int vwscanf(const wchar_t *f, va_list ap) { (void)ap; delegate_called((const CH *)f); return stub_ret(); }
int vswprintf(wchar_t *d, size_t n, const wchar_t *f, va_list ap) { (void)d; (void)n; (void)ap; delegate_called((const CH *)f); return stub_ret(); }
int vfwprintf(FILE *s, const wchar_t *f, va_list ap) { (void)s; (void)ap; delegate_called((const CH *)f); return stub_ret(); }
int vwprintf(const wchar_t *f, va_list ap) { (void)ap; delegate_called((const CH *)f); return stub_ret(); }
char *strerror(int e) { (void)e; static char m[2] = "e"; return m; }
wchar_t *wcsstr(const wchar_t *h, const wchar_t *n)
{
    (void)n;
    /* (the library only ever looks for L"%n" in a format of at most FL characters) */
    for (int i = 0; i < FL; i++) {
        if (!h[i]) return NULL;
        if (h[i] == L'%' && h[i + 1] == L'n') return (wchar_t *)(h + i);
    }
    return NULL;
}
char *strstr(const char *h, const char *n)
{
    (void)n;
    for (int i = 0; i < FL; i++) {
        if (!h[i]) return NULL;
        if (h[i] == '%' && h[i + 1] == 'n') return (char *)(h + i);
    }
    return NULL;
}
#endif

struct { unsigned char f[FL]; } IN;
#ifndef VERIF_REPLAY
unsigned char nondet_uchar(void);
static void draw(void) { for (int i = 0; i < FL; i++) IN.f[i] = nondet_uchar(); }
#else
static void draw(void)
{
#include "replay_in.h"
}
#endif

static int call_v(int dummy, ...)
{
    va_list ap; int r = 0; va_start(ap, dummy);
    static CH srcbuf[4]; static wchar_t wdest[8]; static FILE *fp; fp = (FILE *)&srcbuf; (void)wdest; (void)fp;
#if FN == 2
    r = vsscanf_s((const char *)srcbuf, g_fmt, ap);
#elif FN == 4
    r = vfscanf_s(fp, g_fmt, ap);
#elif FN == 6
    r = vscanf_s(g_fmt, ap);
#elif FN == 8
    r = vswscanf_s(srcbuf, g_fmt, ap);
#elif FN == 10
    r = vfwscanf_s(fp, g_fmt, ap);
#elif FN == 12
    r = vwscanf_s(g_fmt, ap);
#elif FN == 14
    r = _vswprintf_s_chk(wdest, 8, BOS_UNKNOWN, g_fmt, ap);
#elif FN == 16
    r = _vsnwprintf_s_chk(wdest, 8, BOS_UNKNOWN, g_fmt, ap);
#elif FN == 18
    r = vfwprintf_s(fp, g_fmt, ap);
#elif FN == 20
    r = vwprintf_s(g_fmt, ap);
#endif
    va_end(ap);
    return r;
}

void harness(void)
{
    draw();
    /* alphabet */
    for (int i = 0; i < FL; i++) {
        unsigned char c = IN.f[i];
        ASSUME(c == 0 || c == '%' || c == 'n' || c == 'l' || c == 'h' || c == '5' || c == '*' || c == '.' || c == 'd' || c == 'a');
        g_fmt[i] = (CH)c;
    }
    g_fmt[FL] = 0;
    scan_fmt(g_fmt);
    g_delegated = 0; g_hcalls = 0;
    set_str_constraint_handler_s(verif_handler); thrd_set_str_constraint_handler_s(verif_handler);
    static CH srcbuf[4]; static wchar_t wdest[8]; FILE *fp = (FILE *)&srcbuf; (void)wdest; (void)fp;
    int r = 0;
#if FN == 1
    r = sscanf_s((const char *)srcbuf, g_fmt);
#elif FN == 3
    r = fscanf_s(fp, g_fmt);
#elif FN == 5
    r = scanf_s(g_fmt);
#elif FN == 7
    r = swscanf_s(srcbuf, g_fmt);
#elif FN == 9
    r = fwscanf_s(fp, g_fmt);
#elif FN == 11
    r = wscanf_s(g_fmt);
#elif FN == 13
    r = _swprintf_s_chk(wdest, 8, BOS_UNKNOWN, g_fmt);
#elif FN == 15
    r = _snwprintf_s_chk(wdest, 8, BOS_UNKNOWN, g_fmt);
#elif FN == 17
    r = fwprintf_s(fp, g_fmt);
#elif FN == 19
    r = wprintf_s(g_fmt);
#else
    r = call_v(0);
#endif
    (void)r;
    /* a rejected format is a constraint violation: handler exactly once */
    if (!g_delegated) CHECK(g_hcalls == 1, "C09/C05: format rejected without exactly one handler call");
    /* formats without any %n text are never rejected by the pre-scan */
    CANARY(!g_delegated, "delegation reachable"); CANARY(g_delegated, "rejection reachable");
    CANARY(!(g_plain && !g_delegated), "plain %n rejected reachable");
}
VERIF_MAIN(harness)
