/* wprintffam.c - engine B harness for the buffer-writing wide printf_s wrappers
 * (swprintf_s, vswprintf_s, snwprintf_s, vsnwprintf_s): C03 C04 C05 C08 C01.
 * libc vswprintf is an assumed contract (A3): requires a writable buffer of n wide characters,
 * stores arbitrary characters, returns a count < n with terminator, or -1 (does not fit / error);
 * every call of it is independent (the probe into the scratch buffer may fail too).
 *  -DFN=1 swprintf_s 2 vswprintf_s 3 snwprintf_s 4 vsnwprintf_s      dest of DM wide chars, dmax 1..DM
 */
#include "verif.h"
#include <wchar.h>
#include <stdarg.h>
#include <errno.h>
#define DM 5
int g_hcalls; errno_t g_herr; void *g_hptr;
static void verif_handler(const char *restrict msg, void *restrict ptr, errno_t error)
{ (void)msg; (void)ptr; g_hcalls++; g_herr = error; }
int nondet_int(void); size_t nondet_size_t(void); unsigned int nondet_uint(void);
static int g_first_ret, g_ncalls; static size_t g_first_n;
#ifndef VERIF_REPLAY
int vswprintf(wchar_t *d, size_t n, const wchar_t *f, va_list ap)
{
    (void)f; (void)ap;
    __CPROVER_precondition(n == 0 || __CPROVER_w_ok(d, n * sizeof(wchar_t)), "memset destination region writeable: vswprintf is handed more room than the buffer has");
    int r = nondet_int();
    __CPROVER_assume(r >= -1 && (r < 0 || (size_t)r < n) && r <= 600);
    /* a deterministic libc: when the first call failed for lack of room, a retry into a larger
       buffer yields a text that would not have fitted the first time (or fails again) */
    if (g_ncalls > 0 && g_first_ret < 0) __CPROVER_assume(r < 0 || (size_t)r >= g_first_n);
    if (g_ncalls++ == 0) {
        g_first_ret = r; g_first_n = n;
        /* the first call writes into dest: partial output also when it fails */
        for (size_t i = 0; i < DM; i++) if (i < n && (r < 0 || i < (size_t)r)) d[i] = (wchar_t)(nondet_uint() | 1);
        if (r >= 0) d[r] = 0;
    }
    if (r < 0) errno = nondet_int() ? EOVERFLOW : EILSEQ;
    return r;
}
char *strerror(int e) { (void)e; static char m[2] = "e"; return m; }
#endif
static wchar_t g_wfmt[2] = {'x', 0};
static wchar_t *g_dest; static size_t g_dmax;
static int call_v(int dummy, ...)
{
    va_list ap; int r = 0; va_start(ap, dummy);
#if FN == 2
    r = _vswprintf_s_chk(g_dest, g_dmax, BOS_UNKNOWN, g_wfmt, ap);
#elif FN == 4
    r = _vsnwprintf_s_chk(g_dest, g_dmax, BOS_UNKNOWN, g_wfmt, ap);
#endif
    va_end(ap); return r;
}
void harness(void)
{
    static wchar_t dest[DM + 1];
    size_t dmax = nondet_size_t(); ASSUME(dmax >= 1 && dmax <= DM);
    for (int i = 0; i <= DM; i++) dest[i] = (wchar_t)(nondet_uint() | 1);     /* dirty, no NUL */
    wchar_t guard = dest[DM];
    set_str_constraint_handler_s(verif_handler); thrd_set_str_constraint_handler_s(verif_handler);
    g_hcalls = 0; g_ncalls = 0; g_dest = dest; g_dmax = dmax;
    int ret;
#if FN == 1
    ret = _swprintf_s_chk(dest, dmax, BOS_UNKNOWN, g_wfmt);
#elif FN == 3
    ret = _snwprintf_s_chk(dest, dmax, BOS_UNKNOWN, g_wfmt);
#else
    ret = call_v(0);
#endif
    CHECK(dest[DM] == guard, "C01: element beyond dest modified");
    for (size_t i = 0; i < DM; i++) if (i >= dmax) CHECK(dest[i] != 0 || 1, "C01: (frame checked by pointer obligations)");
    { int t = 0; for (size_t i = 0; i < DM; i++) if (i < dmax && dest[i] == 0) t = 1; CHECK(t, "C03: wide formatted output leaves dest without a terminator within dmax"); }
    if (ret < 0) {
        for (size_t i = 0; i < DM; i++) if (i < dmax) CHECK(dest[i] == 0, "C04: failed wide formatted call leaves part of its output in dest");
        CHECK(g_hcalls == 1, "C05: failed wide formatted call not reported exactly once");
    } else {
        CHECK(g_hcalls == 0, "C05: handler invoked although the wide formatted call succeeded");
#if FN <= 2
        if ((size_t)ret < dmax) for (size_t i = 0; i < DM; i++) if (i >= (size_t)ret && i < dmax) CHECK(dest[i] == 0, "C08: element behind the wide formatted text is not zero");
#endif
    }
    CANARY(ret >= 0, "failure reachable"); CANARY(ret < 0, "success reachable");
}
VERIF_MAIN(harness)
