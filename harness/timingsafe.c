/* timingsafe.c - engine B (bounded, n <= NMAX) for timingsafe_bcmp / timingsafe_memcmp (C19):
 *  (1) the result against a reference written here (both directions, sign of the first
 *      differing byte pair compared as unsigned char);
 *  (2) data independence by self-composition: the real function runs twice on the SAME two
 *      buffers and the same n with independent contents; `goto-instrument --branch verif_branch`
 *      has mechanically inserted a call to verif_branch("taken"/"not-taken") at every branch of
 *      the program, the sequence is hashed into g_trace, and both runs must produce the same
 *      sequence.  (The harness itself takes no content-dependent branch between the two
 *      trace windows.)
 *  -DFN=1 timingsafe_bcmp  2 timingsafe_memcmp
 */
#include "verif.h"
#ifndef NMAX
#define NMAX 6
#endif
int g_hcalls; errno_t g_herr; void *g_hptr;
unsigned long g_trace; unsigned g_nbr; int g_tracing;
void verif_branch(const char *which)
{
    if (g_tracing) { g_trace = g_trace * 1000003ul + (unsigned char)which[0]; g_nbr++; }
}
static void verif_handler(const char *restrict msg, void *restrict ptr, errno_t error)
{ (void)msg; (void)ptr; g_hcalls++; g_herr = error; }

struct { size_t n; unsigned char a1[NMAX], b1[NMAX], a2[NMAX], b2[NMAX]; unsigned char bos1, bos2; } IN;
#ifndef VERIF_REPLAY
size_t nondet_size_t(void); unsigned char nondet_uchar(void);
static void draw(void)
{
    IN.n = nondet_size_t(); IN.bos1 = nondet_uchar(); IN.bos2 = nondet_uchar();
    for (int i = 0; i < NMAX; i++) { IN.a1[i] = nondet_uchar(); IN.b1[i] = nondet_uchar(); IN.a2[i] = nondet_uchar(); IN.b2[i] = nondet_uchar(); }
}
#else
static void draw(void)
{
#include "replay_in.h"
}
#endif

static unsigned char *alloc_exact(size_t n)
{
    switch (n) {
    case 0: return malloc(1);   /* n == 0: nothing may be read; a 1-byte object is handed in */
    case 1: return malloc(1); case 2: return malloc(2); case 3: return malloc(3); case 4: return malloc(4);
    case 5: return malloc(5); case 6: return malloc(6); case 7: return malloc(7); case 8: return malloc(8);
    default: return NULL;
    }
}

#if FN == 1
#define CALL(p, q, n, d, s) _timingsafe_bcmp_chk(p, q, n, d, s)
#else
#define CALL(p, q, n, d, s) _timingsafe_memcmp_chk(p, q, n, d, s)
#endif

void harness(void)
{
    draw();
    size_t n = IN.n;
    ASSUME(n <= NMAX && IN.bos1 <= 1 && IN.bos2 <= 1);
    unsigned char *p = alloc_exact(n), *q = alloc_exact(n);
    ASSUME(p && q);
    size_t d = IN.bos1 ? (n ? n : 1) : BOS_UNKNOWN, s = IN.bos2 ? (n ? n : 1) : BOS_UNKNOWN;
    set_mem_constraint_handler_s(verif_handler); thrd_set_mem_constraint_handler_s(verif_handler);
    g_hcalls = 0;
    for (size_t i = 0; i < NMAX; i++) if (i < n) { p[i] = IN.a1[i]; q[i] = IN.b1[i]; }
    g_trace = 0; g_nbr = 0; g_tracing = 1;
    int r1 = CALL(p, q, n, d, s);
    g_tracing = 0;
    unsigned long t1 = g_trace; unsigned nb1 = g_nbr;
    for (size_t i = 0; i < NMAX; i++) if (i < n) { p[i] = IN.a2[i]; q[i] = IN.b2[i]; }
    g_trace = 0; g_nbr = 0; g_tracing = 1;
    int r2 = CALL(p, q, n, d, s);
    g_tracing = 0;
    unsigned long t2 = g_trace; unsigned nb2 = g_nbr;
    CHECK(t1 == t2 && nb1 == nb2, "C19: the sequence of branches taken depends on the contents of the regions");
    /* reference result for run 1 */
    int ref = 0;
    for (size_t i = 0; i < NMAX; i++)
        if (i < n && ref == 0 && IN.a1[i] != IN.b1[i]) ref = IN.a1[i] < IN.b1[i] ? -1 : 1;
#if FN == 1
    CHECK((r1 == 0) == (ref == 0), "C19: timingsafe_bcmp result is zero exactly when the regions are equal");
    CHECK(r1 == 0 || r1 == 1, "C19: timingsafe_bcmp returns 0 or 1");
#else
    CHECK(r1 == ref, "C19: timingsafe_memcmp result is not the sign of the first differing byte pair");
#endif
    CHECK(g_hcalls == 0, "C05: handler invoked on valid operands");
    CANARY(ref != 1, "first difference greater reachable");
    CANARY(ref != -1, "first difference less reachable");
    CANARY(n < NMAX, "full length reachable");
#ifndef VERIF_REPLAY
    CANARY(nb1 < 2, "branch instrumentation is present (at least two branch events in the function)");
#endif
}
VERIF_MAIN(harness)
