/* scanfam.c - engine B (bounded) harness for the single-loop dest-only writers against reference
 * semantics written here; also the native-replay fallback of the engine-A jobs A.<fn>.
 *   -DFN=10 strzero_s  11 strset_s  12 strtolowercase_s  13 strtouppercase_s  14 strnterminate_s  15 strnset_s
 * Bound: exact-fit dest object of 1..N (=5) characters, all contents; dmax, value, n symbolic (64-bit);
 * object size known or unknown to the library; dest may be NULL.
 * C01 (nothing at or beyond dmax / outside the object changes: exact-fit object + explicit comparison),
 * C02, C03, C05, C06, C08.
 */
#include "verif.h"
#ifndef N
#define N 5
#endif
int g_hcalls; errno_t g_herr; void *g_hptr;
static void verif_handler(const char *restrict msg, void *restrict ptr, errno_t error)
{ (void)msg; (void)ptr; g_hcalls++; g_herr = error; }

struct { size_t bsz, dmax, n; int value; unsigned char bos_known, dest_null; char buf[N]; } IN;
#ifndef VERIF_REPLAY
size_t nondet_size_t(void); unsigned char nondet_uchar(void); int nondet_int(void);
static void draw(void)
{
    IN.bsz = nondet_size_t(); IN.dmax = nondet_size_t(); IN.n = nondet_size_t(); IN.value = nondet_int();
    IN.bos_known = nondet_uchar(); IN.dest_null = nondet_uchar();
    for (int i = 0; i < N; i++) IN.buf[i] = (char)nondet_uchar();
}
#else
static void draw(void)
{
#include "replay_in.h"
}
#endif
static char *alloc_exact(size_t n)
{
    switch (n) {
    case 1: return malloc(1); case 2: return malloc(2); case 3: return malloc(3);
    case 4: return malloc(4); case 5: return malloc(5);
    default: return NULL;
    }
}
static char lower(char c) { return (c >= 'A' && c <= 'Z') ? (char)(c + 32) : c; }
static char upper(char c) { return (c >= 'a' && c <= 'z') ? (char)(c - 32) : c; }

void harness(void)
{
    draw();
    ASSUME(IN.bsz >= 1 && IN.bsz <= N && IN.bos_known <= 1 && IN.dest_null <= 1);
    size_t bsz = IN.bsz, dmax = IN.dmax;
    char *buf = alloc_exact(bsz);
    ASSUME(buf != NULL);
    for (size_t i = 0; i < N; i++) if (i < bsz) buf[i] = IN.buf[i];
    size_t destbos = IN.bos_known ? bsz : BOS_UNKNOWN;
    if (!IN.bos_known) ASSUME(dmax > RSIZE_MAX_STR || dmax <= bsz);     /* truthful caller */
    char *dest = IN.dest_null ? NULL : buf;
    set_str_constraint_handler_s(verif_handler); thrd_set_str_constraint_handler_s(verif_handler);
    g_hcalls = 0;
    errno_t rc = 0; rsize_t cnt = 0;
#if FN == 10
    rc = _strzero_s_chk(dest, dmax, destbos);
#elif FN == 11
    rc = _strset_s_chk(dest, dmax, IN.value, destbos);
#elif FN == 12
    rc = _strtolowercase_s_chk(dest, dmax, destbos);
#elif FN == 13
    rc = _strtouppercase_s_chk(dest, dmax, destbos);
#elif FN == 14
    cnt = _strnterminate_s_chk(dest, dmax, destbos);
#elif FN == 15
    rc = _strnset_s_chk(dest, dmax, IN.value, IN.n, destbos);
#endif
    int v_null = dest == NULL, v_zero = dmax == 0;
    int v_max = !IN.bos_known && dmax > RSIZE_MAX_STR, v_ovf = IN.bos_known && dmax > bsz;
    int early = v_null || v_zero || v_max || v_ovf;
#if FN == 11 || FN == 15
    int v_val = !early && (unsigned)IN.value > 255;
#else
    int v_val = 0;
#endif
#if FN == 15
    int v_n = !early && !v_val && IN.n > dmax;
#else
    int v_n = 0;
#endif
    int bad = early || v_val || v_n;
    /* C05 */
#if FN == 14
    CHECK(bad ? (g_hcalls == 1 && cnt == 0) : g_hcalls == 0, "C05: handler invoked exactly once iff an argument constraint is violated");
    if (bad) rc = g_herr;
#else
    CHECK(rc == EOK ? g_hcalls == 0 : (g_hcalls == 1 && g_herr == rc), "C05: handler invoked exactly once with the returned code iff the call fails");
    CHECK(bad == (rc != EOK), "C05: the call fails exactly when an argument constraint is violated");
#endif
    if (bad)
        CHECK((v_null && rc == ESNULLP) || (v_zero && rc == ESZEROL) || ((v_max || v_val) && rc == ESLEMAX) ||
              (v_ovf && (rc == EOVERFLOW || rc == ESLEMAX)) || (v_n && rc == ESNOSPC),
              "C05: returned code names a constraint that is actually violated");
    /* C01: nothing at or beyond dmax changes; a rejected call changes nothing */
    for (size_t i = 0; i < N; i++)
        if (i < bsz && (bad || i >= dmax))
            CHECK(buf[i] == IN.buf[i], "C01: element outside dest[0..dmax) (or any element after a rejected call) modified");
    if (bad) return;
    /* reference */
    size_t L = 0; while (L < N && L < bsz && L < dmax && IN.buf[L]) L++;     /* first NUL, or dmax */
    int term = L < dmax;
    for (size_t i = 0; i < N; i++) {
        if (!(i < bsz && i < dmax)) continue;
#if FN == 10
        CHECK(buf[i] == 0, "C08/C06: strzero_s leaves a non-zero element inside dmax");
#elif FN == 11
        CHECK(buf[i] == (i < L ? (char)IN.value : 0), "C06/C08: strset_s result differs (value up to the old terminator, zero behind it)");
#elif FN == 12
        CHECK(buf[i] == (i < L ? lower(IN.buf[i]) : IN.buf[i]), "C06: strtolowercase_s result differs (converted up to the terminator, unchanged behind it)");
#elif FN == 13
        CHECK(buf[i] == (i < L ? upper(IN.buf[i]) : IN.buf[i]), "C06: strtouppercase_s result differs (converted up to the terminator, unchanged behind it)");
#elif FN == 14
        { size_t e = term ? L : dmax - 1;
          CHECK(cnt == e, "C06: strnterminate_s returns a length other than min(strlen, dmax-1)");
          CHECK(buf[i] == (i == e ? 0 : IN.buf[i]), "C03/C01: strnterminate_s must store exactly one NUL, at the returned length"); }
#elif FN == 15
        { size_t m = IN.n < L ? IN.n : L;             /* characters set */
          int nulled = (m == L) && term;                /* stopped at the terminator: slack is zeroed */
          CHECK(buf[i] == (i < m ? (char)IN.value : (nulled ? 0 : IN.buf[i])), "C06/C08: strnset_s result differs"); }
#endif
    }
    CANARY(!(term && L >= 2), "terminated string of two or more characters reachable");
    CANARY(!(!term && dmax >= 2), "unterminated dest reachable");
    CANARY(!IN.bos_known, "known object size reachable");
}
VERIF_MAIN(harness)
