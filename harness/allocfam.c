/* allocfam.c - engine B harness for C20: every internal allocation may fail (cbmc
 * --malloc-may-fail --malloc-fail-null: any subset of the malloc calls returns NULL, which covers
 * every failure position k at once), nothing may be leaked on any path (--memory-leak-check), a
 * failed allocation must not be dereferenced (pointer obligations), and a failing call must leave
 * dest cleared.
 *  -DFN=1  sprintf_s(dest, dmax, FMT, wide string)      the %ls conversion copy   (FMT e.g. "%-6ls|")
 *  -DFN=2  sprintf_s(dest, dmax, FMT, long double)      the %L[feEgG] / %a format-copy paths
 *  -DFN=3  swprintf_s / 4 vswprintf_s / 5 snwprintf_s / 6 vsnwprintf_s with dmax >= 512:
 *          the heap-allocated no-space probe (libc vswprintf is an assumed contract that fails)
 * The harness itself allocates nothing.
 */
#include "verif.h"
#include <wchar.h>
#include <stdarg.h>
#include <errno.h>
#ifndef FMT
#define FMT "%ls"
#endif
#define DM 16

int g_hcalls; errno_t g_herr; void *g_hptr;
static void verif_handler(const char *restrict msg, void *restrict ptr, errno_t error)
{ (void)msg; (void)ptr; g_hcalls++; g_herr = error; }

int nondet_int(void); size_t nondet_size_t(void); unsigned char nondet_uchar(void);
#ifndef VERIF_REPLAY
/* assumed contracts (A3) */
size_t wcstombs(char *dest, const wchar_t *src, size_t n)
{
    (void)src;
    if (nondet_int()) { errno = EILSEQ; return (size_t)-1; }
    size_t r = nondet_size_t(); __CPROVER_assume(r <= n && r <= 4);
    if (dest) {
        __CPROVER_precondition(__CPROVER_w_ok(dest, r + (r < n ? 1 : 0)), "C20/C01: wcstombs is handed a buffer that is not writeable (failed allocation not checked?)");
        for (size_t i = 0; i < 5; i++) if (i < r) dest[i] = 'w';
        if (r < n) dest[r] = 0;
    }
    return r;
}
int vswprintf(wchar_t *d, size_t n, const wchar_t *f, va_list ap)
{
    (void)f; (void)ap;
    __CPROVER_precondition(n == 0 || __CPROVER_w_ok(d, n * sizeof(wchar_t)), "C20/C01: vswprintf is handed a buffer that is not writeable (failed allocation not checked?)");
    int r = nondet_int(); __CPROVER_assume(r >= -1 && r < 600);
    return r;       /* -1: does not fit / error */
}
#endif

#if FN >= 3
static wchar_t wdest[520];
static wchar_t g_wfmt[2] = {'x', 0};   /* (an array, not a wide literal: see stubs/libc_query.c) */
static int call_v(int dummy, ...)
{
    va_list ap; int r = 0; va_start(ap, dummy);
#if FN == 4
    r = _vswprintf_s_chk(wdest, 512, BOS_UNKNOWN, g_wfmt, ap);
#elif FN == 6
    r = _vsnwprintf_s_chk(wdest, 512, BOS_UNKNOWN, g_wfmt, ap);
#endif
    va_end(ap); return r;
}
#endif

void harness(void)
{
    set_str_constraint_handler_s(verif_handler); thrd_set_str_constraint_handler_s(verif_handler);
    g_hcalls = 0;
#if FN <= 2
    static char dest[DM];
    size_t dmax = nondet_size_t();
    ASSUME(dmax >= 1 && dmax <= DM);
    for (int i = 0; i < DM; i++) dest[i] = (char)nondet_uchar();
    int ret;
#if FN == 1
    static wchar_t ws[4];
    for (int i = 0; i < 3; i++) ws[i] = (wchar_t)nondet_uchar();
    ws[3] = 0;
    ret = _sprintf_s_chk(dest, dmax, BOS_UNKNOWN, FMT, ws);
#else
    long double v = 1.5L;
    ret = _sprintf_s_chk(dest, dmax, BOS_UNKNOWN, FMT, v);
#endif
    if (ret < 0) {
        for (int i = 0; i < DM; i++) if ((size_t)i < dmax) CHECK(dest[i] == 0, "C20/C04: failing formatted call (allocation or conversion failure) leaves dest uncleared");
        CHECK(g_hcalls == 1, "C20/C05: failure not reported exactly once");
    } else {
        int t = 0; for (int i = 0; i < DM; i++) if ((size_t)i < dmax && dest[i] == 0) t = 1;
        CHECK(t, "C20/C03: dest unterminated after a call that reported success");
        CHECK(g_hcalls == 0, "C20/C05: handler invoked although success is returned (internal failure swallowed)");
    }
    CANARY(ret >= 0, "failure reachable"); CANARY(ret < 0, "success reachable");
#else
    int ret;
    for (int i = 0; i < 4; i++) wdest[i] = 0x5a;
#if FN == 3
    ret = _swprintf_s_chk(wdest, 512, BOS_UNKNOWN, g_wfmt);
#elif FN == 5
    ret = _snwprintf_s_chk(wdest, 512, BOS_UNKNOWN, g_wfmt);
#else
    ret = call_v(0);
#endif
    if (ret < 0) CHECK(wdest[0] == 0, "C20/C04: failing wide formatted call leaves dest uncleared");
    CANARY(ret >= 0, "failure reachable");
#endif
}
VERIF_MAIN(harness)
