/* copyfam.c - engine B (bounded) harness for the string copy / concatenate family against a
 * reference model written here.  One function per build, selected with -DFN=<n>, element type
 * with -DWIDE.  Serves C01..C08.  Also compiles natively (-DVERIF_REPLAY) for replay.
 *
 *   FN 1 strcpy_s   2 strcat_s   3 strncpy_s   4 strncat_s   5 stpcpy_s   6 stpncpy_s
 *   (WIDE: 1 wcscpy_s 2 wcscat_s 3 wcsncpy_s 4 wcsncat_s)
 *
 * Bound: strings / extents of at most N elements (default 4), arena of 2N+2 elements; dmax,
 * slen, offsets, contents, NULL-ness, "object size known to the library" all symbolic
 * (dmax and slen over the full 64-bit range).
 * Layout 0: both operands inside one arena object (every relative placement incl. overlap).
 * Layout 1: two separate exact-fit objects (any stray load/store is a pointer-check failure).
 */
#include "verif.h"
#include <wchar.h>

#ifndef N
#define N 4
#endif
#ifdef BIG
/* BIG: crosses the dmax > 0x20 switch between the byte loop and memset in the slack-nulling code:
   one arena of 44 elements, dest and src at CONCRETE offsets (BIGDIR 0: dest below src, 1: above),
   dmax symbolic in 33..38, strings of at most N (=2) elements */
#define ASZ 44
#else
#define ASZ (2 * N + 2)
#endif

#ifdef WIDE
typedef wchar_t CH;
#define RMAX RSIZE_MAX_WSTR
#else
typedef char CH;
#define RMAX RSIZE_MAX_STR
#endif

#if FN == 3 || FN == 4 || FN == 6
#define HAS_SLEN 1
#else
#define HAS_SLEN 0
#endif
#if FN == 2 || FN == 4
#define IS_CAT 1
#else
#define IS_CAT 0
#endif
#if FN == 5 || FN == 6
#define IS_STP 1
#else
#define IS_STP 0
#endif

int g_hcalls; errno_t g_herr; void *g_hptr;
static void verif_handler(const char *restrict msg, void *restrict ptr, errno_t error)
{ (void)msg; g_hcalls++; g_herr = error; g_hptr = ptr; }

struct in_s {
    unsigned char layout;      /* 0 arena, 1 separate objects */
    unsigned char dest_null, src_null, bos_known, sbos_known;
    size_t asz;                /* arena elements (layout 0) */
    size_t doff, soff;         /* element offsets into the arena (layout 0) */
    size_t dext, sext;         /* extents in elements (layout 1: object sizes) */
    size_t dmax, slen;
    CH mem[ASZ];               /* initial contents: arena, or dest (first N+1) / src (rest) */
    size_t k;                  /* arbitrary index for frame checks */
} IN;

#ifndef VERIF_REPLAY
size_t nondet_size_t(void); unsigned char nondet_uchar(void); CH nondet_ch(void);
static void draw(void)
{
    IN.layout = nondet_uchar(); IN.dest_null = nondet_uchar(); IN.src_null = nondet_uchar();
    IN.bos_known = nondet_uchar(); IN.sbos_known = nondet_uchar();
    IN.asz = nondet_size_t(); IN.doff = nondet_size_t(); IN.soff = nondet_size_t();
    IN.dext = nondet_size_t(); IN.sext = nondet_size_t();
    IN.dmax = nondet_size_t(); IN.slen = nondet_size_t(); IN.k = nondet_size_t();
    for (int i = 0; i < ASZ; i++) IN.mem[i] = nondet_ch();
}
#else
static void draw(void)
{
#include "replay_in.h"
}
#endif

/* exact-fit object of n elements, n <= N+1: constant-size allocations (bit-flattened by the
   verifier, far cheaper than one symbolic-size object) */
static CH *alloc_exact(size_t n)
{
    switch (n) {
    case 1: return malloc(1 * sizeof(CH));
    case 2: return malloc(2 * sizeof(CH));
    case 3: return malloc(3 * sizeof(CH));
    case 4: return malloc(4 * sizeof(CH));
#if N >= 4
    case 5: return malloc(5 * sizeof(CH));
#endif
#if N >= 5
    case 6: return malloc(6 * sizeof(CH));
#endif
    default: return NULL;
    }
}

static size_t ref_nlen(const CH *s, size_t n) { size_t i = 0; while (i < n && s[i]) i++; return i; }

void harness(void)
{
    draw();
    ASSUME(IN.layout <= 1 && IN.dest_null <= 1 && IN.src_null <= 1 && IN.bos_known <= 1 && IN.sbos_known <= 1);
#ifdef LAYOUT
    ASSUME(IN.layout == LAYOUT);
#endif
    CH *arena, *dest, *src;
    size_t dext, sext;         /* real remaining extent (elements) behind dest / src */
    size_t doff = 0, soff = 0, asz;
    if (IN.layout == 0) {
        /* constant-size arena; operands may sit flush against either end */
        ASSUME(IN.asz == ASZ && IN.doff < IN.asz && IN.soff < IN.asz);
#ifdef BIG
#if BIGDIR == 0
        ASSUME(IN.doff == 0 && IN.soff == 40);
#else
        ASSUME(IN.doff == 4 && IN.soff == 0);
#endif
        ASSUME(IN.dmax >= 33 && IN.dmax <= 38 && !IN.dest_null && !IN.src_null && !IN.bos_known);
#endif
        asz = IN.asz; doff = IN.doff; soff = IN.soff;
        arena = malloc(ASZ * sizeof(CH));
        ASSUME(arena != NULL);
        for (size_t i = 0; i < ASZ; i++) if (i < asz) arena[i] = IN.mem[i];
        dest = arena + doff; src = arena + soff;
        dext = asz - doff; sext = asz - soff;
    } else {
        ASSUME(IN.dext >= 1 && IN.dext <= N + 1 && IN.sext >= 1 && IN.sext <= N + 1);
        dext = IN.dext; sext = IN.sext; asz = 0;
        dest = alloc_exact(dext); src = alloc_exact(sext);
        ASSUME(dest != NULL && src != NULL);
        arena = NULL;
        for (size_t i = 0; i <= N; i++) { if (i < dext) dest[i] = IN.mem[i]; if (i < sext) src[i] = IN.mem[N + 1 + i]; }
    }
    size_t dmax = IN.dmax, slen = IN.slen;
    /* snapshots */
    CH d0[ASZ], s0[ASZ], a0[ASZ];
    for (size_t i = 0; i < ASZ; i++) {
        d0[i] = i < dext ? dest[i] : 0; s0[i] = i < sext ? src[i] : 0;
        a0[i] = (IN.layout == 0 && i < asz) ? arena[i] : 0;
    }
    /* ---- truthfulness of the caller's declarations (property precondition) */
    size_t destbos = IN.bos_known ? dext * sizeof(CH) : BOS_UNKNOWN;
    size_t srcbos = IN.sbos_known ? sext * sizeof(CH) : BOS_UNKNOWN;
    if (!IN.bos_known) ASSUME(dmax > RMAX || dmax <= dext);  /* dest really has dmax elements */
    size_t sl = ref_nlen(s0, sext);            /* source length; == sext when unterminated */
    int s_term = sl < sext;
#ifdef BIG
    ASSUME(sl <= N && s_term);                 /* short strings keep every scan loop short */
    if (IS_CAT) ASSUME(ref_nlen(d0, dmax) <= N);
#endif
    /* an unterminated source must at least have as many elements as the call may read */
#if HAS_SLEN
    if (!s_term) ASSUME(sext >= slen || sext >= dmax || IN.sbos_known);
#else
    if (!s_term) ASSUME(sext >= dmax);
#endif
    if (IN.dest_null) dest = NULL;
    if (IN.src_null) src = NULL;

    g_hcalls = 0; g_herr = 0;
    set_str_constraint_handler_s(verif_handler);
    thrd_set_str_constraint_handler_s(NULL);   /* the thread-local slot defaults to ... */
    /* thrd_set(NULL) installs the default (ignore) handler thread-locally, which would hide the
       process-wide one; install ours there as well so exactly our handler observes the call */
    thrd_set_str_constraint_handler_s(verif_handler);

    errno_t rc = -1; CH *endp = NULL; errno_t err_out = 12345;
#ifndef WIDE
#if FN == 1
    rc = _strcpy_s_chk(dest, dmax, src, destbos);
#elif FN == 2
    rc = _strcat_s_chk(dest, dmax, src, destbos);
#elif FN == 3
    rc = _strncpy_s_chk(dest, dmax, src, slen, destbos, srcbos);
#elif FN == 4
    rc = _strncat_s_chk(dest, dmax, src, slen, destbos, srcbos);
#elif FN == 5
    endp = _stpcpy_s_chk(dest, dmax, src, &err_out, destbos, srcbos); rc = err_out;
#elif FN == 6
    endp = _stpncpy_s_chk(dest, dmax, src, slen, &err_out, destbos, srcbos); rc = err_out;
#endif
#else
#if FN == 1
    rc = _wcscpy_s_chk(dest, dmax, src, destbos);
#elif FN == 2
    rc = _wcscat_s_chk(dest, dmax, src, destbos);
#elif FN == 3
    rc = _wcsncpy_s_chk(dest, dmax, src, slen, destbos, srcbos);
#elif FN == 4
    rc = _wcsncat_s_chk(dest, dmax, src, slen, destbos, srcbos);
#endif
#endif

    /* ---- reference model --------------------------------------------------------------- */
    int v_dnull = dest == NULL, v_zero = dmax == 0, v_snull = src == NULL;
    int v_max = dmax > RMAX;
    int v_ovf = IN.bos_known && dmax > dext;       /* dmax above the known object size */
    int v_slenmax = HAS_SLEN && slen > RMAX;
    int v_sovf = HAS_SLEN && IN.sbos_known && slen > sext;
    int early = v_dnull || v_zero || v_max || v_ovf || v_snull || v_slenmax || v_sovf;
    int zero_len = HAS_SLEN && slen == 0;          /* documented special cases: safety only */
    int usable = !v_dnull && !v_zero && !v_max && !v_ovf;   /* dest/dmax themselves usable */

    /* C05 */
    if (!zero_len) {
        CHECK(rc == EOK ? g_hcalls == 0 : g_hcalls == 1, "C05: handler invoked exactly once iff the call fails");
        CHECK(rc == EOK || g_herr == rc, "C05: handler receives the code that is returned");
        if (early) {
            CHECK(rc != EOK, "C05: violated argument constraint is reported");
            CHECK((v_dnull && rc == ESNULLP) || (v_zero && rc == ESZEROL) || (v_max && rc == ESLEMAX) ||
                  (v_ovf && (rc == EOVERFLOW || rc == ESLEMAX)) || (v_snull && rc == ESNULLP) ||
                  (v_slenmax && rc == ESLEMAX) || (v_sovf && (rc == EOVERFLOW || rc == ESLEMAX)),
                  "C05: returned code names a constraint that is actually violated");
        }
    }
    /* C05: size above the RSIZE limit is rejected before dest or src is touched */
    if (!v_dnull && v_max && !IN.bos_known && IN.k < dext && !zero_len)
        CHECK(dest[IN.k] == d0[IN.k], "C05: dmax above RSIZE_MAX rejected before dest is touched");

    /* C01 frame: nothing outside dest[0..min(dmax,dext)) changes */
    if (IN.layout == 0 && IN.k < asz) {
        int inside = !v_dnull && IN.k >= doff && (IN.k - doff) < dmax;
        CHECK(inside || arena[IN.k] == a0[IN.k], "C01: element outside dest[0..dmax) modified");
    }
    if (IN.layout == 1 && !v_snull && IN.k < sext)
        CHECK(src[IN.k] == s0[IN.k], "C01: source object modified");
    if (IN.layout == 1 && !v_dnull && IN.k < dext && IN.k >= dmax)
        CHECK(dest[IN.k] == d0[IN.k], "C01: dest element at or beyond dmax modified");

    if (!usable) return;
    /* from here: dest != NULL, 0 < dmax <= RMAX, dmax <= dext (extent truthful) */

    /* C03: terminated within dmax after every return (zero-length no-op excepted) */
    if (!(zero_len && IS_CAT)) {
        size_t tl = ref_nlen(dest, dmax);
        if (dest == src && !IS_CAT && FN != 3)
            CHECK(tl < dmax, "C03: dest==src shortcut returns with no terminator within dmax");
        else
            CHECK(tl < dmax, "C03: dest has no terminator within dmax after return");
    }
    if (zero_len) return;

    /* expected standard result */
    size_t dl = IS_CAT ? ref_nlen(d0, dmax) : 0;           /* == dmax: dest unterminated */
    size_t cl = sl;
#if HAS_SLEN
    if (slen < cl) cl = slen;
#endif
    int v_unterm = IS_CAT && dl == dmax;
    int fits = !v_unterm && (dl + cl < dmax);              /* room for dl + cl + NUL */
    /* a source without terminator inside its extent: n-variants may stop at slen, the others
       can only fail (no space / unterminated) */
    int src_ok = s_term || (HAS_SLEN && slen <= sl);
    /* overlap classification (layout 0 only; layout 1 objects are disjoint) */
    /* source elements a standard copy reads: up to and including the terminator, but never
       more than slen for the n-variants */
    size_t nread = s_term ? sl + 1 : sl;
#if HAS_SLEN
    if (slen < nread) nread = slen;
#endif
    int obj_overlap = 0, wr_overlap = 0, same = 0;
    if (IN.layout == 0 && !v_snull) {
        same = (doff == soff);
        size_t w0 = doff, w1 = doff + dmax;                /* declared dest extent */
        size_t r0 = soff, r1 = soff + nread;
        obj_overlap = (nread > 0) && r0 < w1 && w0 < r1;
        size_t x0 = doff + dl, x1 = doff + dl + cl + 1;    /* elements the standard copy writes */
        wr_overlap = !v_unterm && (nread > 0) && r0 < x1 && x0 < r1;
    }

    if (rc != EOK) {
        /* C04 */
        CHECK(dest[0] == 0, "C04: failed call leaves dest non-empty");
#ifndef NOSLACK
        if ((rc == ESNOSPC || rc == ESOVRLP || rc == ESUNTERM || v_snull) && IN.k < dmax)
            CHECK(dest[IN.k] == 0, "C04: failed call (late failure or null source) does not zero all of dest");
#endif
        if (IN.layout == 1 && !v_snull && IN.k < sext)
            CHECK(src[IN.k] == s0[IN.k], "C04: failed call modified a source that does not overlap dest");
        if (IN.layout == 0 && !v_snull && !obj_overlap && IN.k < nread)
            CHECK(src[IN.k] == s0[IN.k], "C04: failed call modified a source that does not overlap dest");
        if (!early) {
            /* C06/C07: it may only fail for a reason that exists */
            CHECK(rc == ESNOSPC || rc == ESOVRLP || rc == ESUNTERM || rc == EOVERFLOW || rc == ESLEMAX,
                  "C05: failure code is a documented one");
            if (rc == ESOVRLP)
                CHECK(IN.layout == 0 && (obj_overlap || same), "C07: disjoint operands rejected as overlapping");
            if (rc == ESNOSPC)
                CHECK(!fits || !src_ok || obj_overlap, "C06: reports no-space although the complete result fits");
            if (rc == ESUNTERM)
                CHECK(v_unterm || !s_term, "C06: reports unterminated although operands are terminated");
            if (fits && src_ok && !obj_overlap && !same)
                CHECK(0, "C06: valid disjoint operands whose result fits are rejected");
        }
        if (IS_STP) CHECK(endp == NULL, "C06: failed stpcpy returns a non-null end pointer");
        return;
    }
    /* ---- rc == EOK */
    CHECK(!early, "C05: call with a violated argument constraint returns success");
    if (early) return;
    if (same && !IS_CAT && FN != 3) {
        /* identical pointers are documented as accepted (no-op) for strcpy/stpcpy/wcscpy */
        if (IN.k < dmax) CHECK(dest[IN.k] == d0[IN.k] || (IN.k > ref_nlen(d0, dmax)),
                               "C06: dest==src must leave the string intact");
        return;
    }
    CHECK(!wr_overlap, "C07: elements read and written intersect but no overlap error is reported");
    if (wr_overlap) return;
    CHECK(fits && src_ok, "C06: success although the complete result (with terminator) does not fit: truncated");
    if (!(fits && src_ok)) return;
    /* exact result */
    if (IN.k < dl)
        CHECK(dest[IN.k] == d0[IN.k], "C06: concatenation changed the existing prefix of dest");
    if (IN.k >= dl && IN.k < dl + cl)
        CHECK(dest[IN.k] == s0[IN.k - dl], "C06: copied element differs from the source");
    CHECK(dest[dl + cl] == 0, "C06: result not terminated at its exact length");
#ifndef NOSLACK
    if (IN.k > dl + cl && IN.k < dmax)
        CHECK(dest[IN.k] == 0, "C08: stale element behind the terminator after success");
#endif
    if (IS_STP) CHECK(endp == dest + dl + cl, "C06: returned end pointer does not point at the terminator");
    /* source untouched when it does not overlap dest */
    if (IN.layout == 0 && !obj_overlap && IN.k < nread)
        CHECK(src[IN.k] == s0[IN.k], "C01: source modified by a successful call");
    /* reachability witnesses */
#if !defined(LAYOUT) || LAYOUT == 0
    CANARY(!(IN.layout == 0 && doff < soff), "success with dest below src");
    CANARY(!(IN.layout == 0 && doff > soff), "success with dest above src");
#endif
    CANARY(cl < 2, "success copying at least two elements");
}
VERIF_MAIN(harness)
