/* queryfam.c - engine B (bounded) harness for the read-only query functions (C10, C02, C05, C01).
 * One function per build (-DFN=<n>, table below).  Operands are exact-fit heap objects of at
 * most N+1 elements (N default 4) with arbitrary contents, terminated or not; sizes, characters,
 * NULL-ness and "object size known" flags are symbolic (sizes over the full 64-bit range).
 *
 * Always checked:  no out-of-extent access (pointer checks on the exact-fit objects: C02),
 *                  operands never modified (C10/C01), handler exactly once with the returned code
 *                  on a constraint violation and never otherwise (C05).
 * On valid operands (terminated within the declared sizes): the answer of the standard
 * counterpart, computed here by plain reference loops (C10).
 */
#include "verif.h"
#include <ctype.h>
#include <wchar.h>
#ifndef N
#define N 4
#endif
#define M (N + 1)

#if (FN >= 10 && FN <= 14) || (FN >= 40 && FN <= 43) || (FN >= 60 && FN <= 63)
#define HAS_SLEN 1
#else
#define HAS_SLEN 0
#endif
#if FN >= 60
typedef wchar_t CH;
#if FN == 63
#define RMAX (RSIZE_MAX_MEM / sizeof(wchar_t))
#else
#define RMAX RSIZE_MAX_WSTR
#endif
#else
typedef char CH;
#if FN >= 40 && FN <= 45
#define RMAX RSIZE_MAX_MEM
#else
#define RMAX RSIZE_MAX_STR
#endif
#endif

int g_hcalls; errno_t g_herr; void *g_hptr;
static void verif_handler(const char *restrict msg, void *restrict ptr, errno_t error)
{ (void)msg; (void)ptr; g_hcalls++; g_herr = error; }

struct {
    unsigned char dest_null, src_null, res_null, bos_known, sbos_known;
    size_t dext, sext, dmax, slen, count;
    int ch; int fold;
    CH d[M], s[M];
} IN;
#ifndef VERIF_REPLAY
size_t nondet_size_t(void); unsigned char nondet_uchar(void); int nondet_int(void); CH nondet_ch(void);
static void draw(void)
{
    IN.dest_null = nondet_uchar(); IN.src_null = nondet_uchar(); IN.res_null = nondet_uchar();
    IN.bos_known = nondet_uchar(); IN.sbos_known = nondet_uchar();
    IN.dext = nondet_size_t(); IN.sext = nondet_size_t(); IN.dmax = nondet_size_t(); IN.slen = nondet_size_t(); IN.count = nondet_size_t();
    IN.ch = nondet_int(); IN.fold = nondet_int();
    for (int i = 0; i < M; i++) { IN.d[i] = nondet_ch(); IN.s[i] = nondet_ch(); }
}
#else
static void draw(void)
{
#include "replay_in.h"
}
#endif

static CH *alloc_exact(size_t n)
{
    switch (n) {
    case 1: return malloc(1 * sizeof(CH)); case 2: return malloc(2 * sizeof(CH)); case 3: return malloc(3 * sizeof(CH));
    case 4: return malloc(4 * sizeof(CH)); case 5: return malloc(5 * sizeof(CH)); case 6: return malloc(6 * sizeof(CH));
    default: return NULL;
    }
}
static size_t nlen(const CH *p, size_t n) { size_t i = 0; while (i < n && p[i]) i++; return i; }
static int sgn(int x) { return x < 0 ? -1 : x > 0 ? 1 : 0; }
static int up(int c) { return (c >= 'a' && c <= 'z') ? c - 32 : c; }

void harness(void)
{
    draw();
    ASSUME(IN.dest_null <= 1 && IN.src_null <= 1 && IN.res_null <= 1 && IN.bos_known <= 1 && IN.sbos_known <= 1);
    ASSUME(IN.dext >= 1 && IN.dext <= M && IN.sext >= 1 && IN.sext <= M);
    size_t dext = IN.dext, sext = IN.sext, dmax = IN.dmax, slen = IN.slen;
    CH *dest = alloc_exact(dext), *src = alloc_exact(sext);
    ASSUME(dest && src);
    CH d0[M], s0[M];
    for (size_t i = 0; i < M; i++) { if (i < dext) dest[i] = IN.d[i]; if (i < sext) src[i] = IN.s[i]; d0[i] = i < dext ? IN.d[i] : 0; s0[i] = i < sext ? IN.s[i] : 0; }
    size_t destbos = IN.bos_known ? dext * sizeof(CH) : BOS_UNKNOWN;
    size_t srcbos = IN.sbos_known ? sext * sizeof(CH) : BOS_UNKNOWN;
    /* truthful declarations */
    /* (the wide query functions bound dmax by RSIZE_MAX_STR, the largest limit in use) */
    if (!IN.bos_known) ASSUME(dmax > (FN >= 60 && FN != 63 ? RSIZE_MAX_STR : RMAX) || dmax <= dext);
    size_t dl = nlen(d0, dext), sl = nlen(s0, sext);     /* == ext when unterminated */
    int d_term = dl < dext, s_term = sl < sext;
#if HAS_SLEN
    /* src declared by slen: really that long, or terminated earlier */
#if FN == 40 || FN == 63
    if (!IN.sbos_known) ASSUME(slen <= sext || slen > dmax);
#else
    if (!IN.sbos_known) ASSUME(slen > RMAX || slen <= sext || s_term);
#endif
#else
    /* src declared as a string: terminated, or at least as long as dest's declared size;
       strcmpfld_s compares fields of exactly dmax characters: src must have them */
#if FN == 3
    ASSUME(sext >= dmax || dmax > RMAX);
#else
    ASSUME(s_term || sext >= dmax);
#endif
#endif
#if FN == 63
    /* sizes whose byte count wraps around 2^64 are excluded here: wmemcmp_s accepts them and
       runs far past both objects (recorded in DESIGN.md, findings); the loop then exceeds any
       unwinding bound, which would leave this job undecided */
    ASSUME(dmax < ((size_t)1 << 61) && slen < ((size_t)1 << 61));
#endif
    CH *dp = IN.dest_null ? NULL : dest, *sp = IN.src_null ? NULL : src;
    g_hcalls = 0; g_herr = 0;
    set_str_constraint_handler_s(verif_handler); thrd_set_str_constraint_handler_s(verif_handler);
    set_mem_constraint_handler_s(verif_handler); thrd_set_mem_constraint_handler_s(verif_handler);

    errno_t rc = 0; int ires = 12345; rsize_t idx = 12345; CH *ptr = (CH *)dest; bool bres = false;
    int *iresp = IN.res_null ? NULL : &ires; rsize_t *idxp = IN.res_null ? NULL : &idx; CH **ptrp = IN.res_null ? NULL : &ptr;
    int is_bool = 0, notfound_ok = 0;
    /* valid: every documented precondition holds */
    int valid = !IN.dest_null && !IN.res_null && dmax > 0 && dmax <= dext && dmax <= RMAX && dl < dmax;
    int valid2 = valid && !IN.src_null && s_term;

#if FN == 1      /* strcmp_s */
    rc = _strcmp_s_chk(dp, dmax, sp, iresp, destbos, srcbos);
    if (valid2 && rc == EOK) {
        size_t i = 0; while (i < dl && i < sl && d0[i] == s0[i]) i++;
        int ref = (unsigned char)d0[i] - (unsigned char)s0[i];
        CHECK(sgn(ires) == sgn(ref), "C10: strcmp_s sign differs from strcmp");
    }
    if (valid2) CHECK(rc == EOK, "C10: strcmp_s fails on valid operands");
#elif FN == 2    /* strcasecmp_s */
    rc = _strcasecmp_s_chk(dp, dmax, sp, iresp, destbos);
    if (valid2 && rc == EOK) {
        size_t i = 0; while (i < dl && i < sl && up((unsigned char)d0[i]) == up((unsigned char)s0[i])) i++;
        int ref = up((unsigned char)d0[i]) - up((unsigned char)s0[i]);
        CHECK(sgn(ires) == sgn(ref), "C10: strcasecmp_s sign differs from strcasecmp (ASCII letters)");
    }
    if (valid2) CHECK(rc == EOK, "C10: strcasecmp_s fails on valid operands");
#elif FN == 3    /* strcmpfld_s: compares exactly dmax characters (fields, not strings) */
    rc = _strcmpfld_s_chk(dp, dmax, sp, iresp, destbos);
    if (!IN.dest_null && !IN.res_null && !IN.src_null && dmax > 0 && dmax <= dext && dmax <= sext) {
        CHECK(rc == EOK, "C10: strcmpfld_s fails on valid fields");
        size_t i = 0; while (i < dmax && d0[i] == s0[i]) i++;
        int ref = i == dmax ? 0 : (unsigned char)d0[i] - (unsigned char)s0[i];
        if (rc == EOK) CHECK(sgn(ires) == sgn(ref), "C10: strcmpfld_s sign differs from memcmp over dmax characters");
    }
#elif FN >= 4 && FN <= 7   /* strfirstdiff_s 4, strfirstsame_s 5, strlastdiff_s 6, strlastsame_s 7 */
#if FN == 4
    rc = _strfirstdiff_s_chk(dp, dmax, sp, idxp, destbos);
#elif FN == 5
    rc = _strfirstsame_s_chk(dp, dmax, sp, idxp, destbos);
#elif FN == 6
    rc = _strlastdiff_s_chk(dp, dmax, sp, idxp, destbos);
#else
    rc = _strlastsame_s_chk(dp, dmax, sp, idxp, destbos);
#endif
    notfound_ok = 1;
    if (valid2) {
        size_t lim = dl < sl ? dl : sl; int found = 0; size_t ref = 0;
        for (size_t i = 0; i < M; i++) if (i < lim) {
            int hit = (FN == 4 || FN == 6) ? (d0[i] != s0[i]) : (d0[i] == s0[i]);
            if (hit && (!found || FN >= 6)) { ref = i; found = 1; }
        }
        CHECK(rc == (found ? EOK : ((FN == 4 || FN == 6) ? ESNODIFF : ESNOTFND)), "C10: first/last same/diff: wrong found/not-found status");
        if (found && rc == EOK) CHECK(idx == ref, "C10: first/last same/diff: wrong index");
    }
#elif FN == 8    /* strprefix_s */
    rc = _strprefix_s_chk(dp, dmax, sp, destbos);
    notfound_ok = 1;
    valid = !IN.dest_null && dmax > 0 && dmax <= dext && dmax <= RMAX && dl < dmax; valid2 = valid && !IN.src_null && s_term;
    if (valid2) {
        int ref = sl > 0 && sl <= dl; for (size_t i = 0; i < M; i++) if (i < sl && i < dl && d0[i] != s0[i]) ref = 0;
        if (sl > 0) CHECK((rc == EOK) == ref, "C10: strprefix_s answer differs from strncmp(dest, src, strlen(src)) == 0");
    }
#elif FN >= 10 && FN <= 14  /* strstr_s 10, strcasestr_s 11, strpbrk_s 12, strspn_s 13, strcspn_s 14 */
#if FN == 10
    rc = _strstr_s_chk(dp, dmax, sp, slen, ptrp, destbos, srcbos);
#elif FN == 11
    rc = _strcasestr_s_chk(dp, dmax, sp, slen, ptrp, destbos, srcbos);
#elif FN == 12
    rc = _strpbrk_s_chk(dp, dmax, sp, slen, ptrp, destbos, srcbos);
#elif FN == 13
    rc = _strspn_s_chk(dp, dmax, sp, slen, idxp, destbos, srcbos);
#else
    rc = _strcspn_s_chk(dp, dmax, sp, slen, idxp, destbos, srcbos);
#endif
    notfound_ok = 1;
    /* valid: src terminated inside slen elements, slen within its object */
    if (valid2 && slen > 0 && slen <= sext && slen <= RMAX && sl < slen) {
#if FN == 10 || FN == 11
        int found = 0; size_t ref = 0;
        for (size_t i = 0; i < M; i++) if (!found && i + sl <= dl) {
            int m = 1;
            for (size_t j = 0; j < M; j++) if (j < sl) {
                int a = (unsigned char)d0[i + j < M ? i + j : 0], b = (unsigned char)s0[j];
                if (FN == 11) { a = up(a); b = up(b); }
                if (i + j >= M || a != b) m = 0;
            }
            if (m) { found = 1; ref = i; }
        }
        CHECK(rc == (found ? EOK : ESNOTFND), "C10: strstr_s/strcasestr_s found/not-found differs from strstr");
        if (found && rc == EOK) CHECK(ptr == dest + ref, "C10: strstr_s/strcasestr_s returns a different position than strstr");
#elif FN == 12
        int found = 0; size_t ref = 0;
        for (size_t i = 0; i < M; i++) if (!found && i < dl) for (size_t j = 0; j < M; j++) if (j < sl && d0[i] == s0[j] && !found) { found = 1; ref = i; }
        CHECK(rc == (found ? EOK : ESNOTFND), "C10: strpbrk_s found/not-found differs from strpbrk");
        if (found && rc == EOK) CHECK(ptr == dest + ref, "C10: strpbrk_s returns a different position than strpbrk");
#else
        size_t ref = 0; int stop = 0;
        for (size_t i = 0; i < M; i++) if (!stop && i < dl) {
            int in = 0; for (size_t j = 0; j < M; j++) if (j < sl && d0[i] == s0[j]) in = 1;
            if ((FN == 13) ? in : !in) ref++; else stop = 1;
        }
        CHECK(rc == EOK, "C10: strspn_s/strcspn_s fails on valid operands");
        if (rc == EOK) CHECK(idx == ref, "C10: strspn_s/strcspn_s count differs from strspn/strcspn");
#endif
    }
#elif FN >= 20 && FN <= 23  /* strfirstchar_s 20, strlastchar_s 21, strchr_s 22, strrchr_s 23 */
    {
    int c = IN.ch;
#if FN == 20
    rc = _strfirstchar_s_chk(dp, dmax, (char)c, ptrp, destbos);
#elif FN == 21
    rc = _strlastchar_s_chk(dp, dmax, (char)c, ptrp, destbos);
#elif FN == 22
    rc = _strchr_s_chk(dp, dmax, c, ptrp, destbos);
#else
    rc = _strrchr_s_chk(dp, dmax, c, ptrp, destbos);
#endif
    notfound_ok = 1;
    if (valid && ((FN <= 21) || (c >= 0 && c <= 255)) && (char)c != 0 && dl > 0) {
        int found = 0; size_t ref = 0;
        for (size_t i = 0; i < M; i++) if (i < dl && d0[i] == (char)c && (!found || FN == 21 || FN == 23)) { found = 1; ref = i; }
        CHECK(rc == (found ? EOK : ESNOTFND), "C10: character search found/not-found differs from strchr/strrchr");
        if (found && rc == EOK) CHECK(ptr == dest + ref, "C10: character search returns a different position than strchr/strrchr");
    }
    if (rc == EOK && !IN.res_null && !IN.dest_null && dmax <= dext)
        CHECK(ptr >= dest && ptr < dest + dmax, "C10/C02: returned position lies outside dest[0..dmax)");
    }
#elif FN >= 30 && FN <= 37  /* stris*: alphanumeric 30 ascii 31 digit 32 hex 33 lowercase 34 mixedcase 35 password 36 uppercase 37 */
    is_bool = 1;
#if FN == 30
    bres = _strisalphanumeric_s_chk(dp, dmax, destbos);
#define CLS(c) (((c) >= '0' && (c) <= '9') || ((c) >= 'a' && (c) <= 'z') || ((c) >= 'A' && (c) <= 'Z'))
#elif FN == 31
    bres = _strisascii_s_chk(dp, dmax, destbos);
#define CLS(c) ((unsigned char)(c) < 128)
#elif FN == 32
    bres = _strisdigit_s_chk(dp, dmax, destbos);
#define CLS(c) ((c) >= '0' && (c) <= '9')
#elif FN == 33
    bres = _strishex_s_chk(dp, dmax, destbos);
#define CLS(c) (((c) >= '0' && (c) <= '9') || ((c) >= 'a' && (c) <= 'f') || ((c) >= 'A' && (c) <= 'F'))
#elif FN == 34
    bres = _strislowercase_s_chk(dp, dmax, destbos);
#define CLS(c) ((c) >= 'a' && (c) <= 'z')
#elif FN == 35
    bres = _strismixedcase_s_chk(dp, dmax, destbos);
#define CLS(c) (((c) >= 'a' && (c) <= 'z') || ((c) >= 'A' && (c) <= 'Z'))
#elif FN == 36
    bres = _strispassword_s_chk(dp, dmax, destbos);
#define CLS(c) 1
#else
    bres = _strisuppercase_s_chk(dp, dmax, destbos);
#define CLS(c) ((c) >= 'A' && (c) <= 'Z')
#endif
    valid = !IN.dest_null && dmax > 0 && dmax <= dext && dmax <= RMAX && dl < dmax;
#if FN != 36
    if (valid && dl > 0) {
        int ref = 1; for (size_t i = 0; i < M; i++) if (i < dl && !CLS(d0[i])) ref = 0;
        CHECK(bres == (bool)ref, "C10: character-class predicate differs from the ctype reference (C locale)");
    }
#endif
    rc = bres ? EOK : (g_hcalls ? g_herr : ESNOTFND);
    notfound_ok = 1;
#elif FN >= 40 && FN <= 45  /* memcmp_s 40, memcmp16_s 41, memcmp32_s 42, memchr_s 44, memrchr_s 45 */
#if FN == 40
    rc = _memcmp_s_chk(dp, dmax, sp, slen, iresp, destbos, srcbos);
    if (!IN.dest_null && !IN.src_null && !IN.res_null && dmax > 0 && dmax <= dext && slen > 0 && slen <= sext && slen <= dmax) {
        CHECK(rc == EOK, "C10: memcmp_s fails on valid operands");
        size_t i = 0; while (i < slen && d0[i] == s0[i]) i++;
        int ref = i == slen ? 0 : (unsigned char)d0[i] - (unsigned char)s0[i];
        if (rc == EOK) CHECK(sgn(ires) == sgn(ref), "C10: memcmp_s sign differs from memcmp");
    }
#elif FN == 44 || FN == 45
    { void *vres = dest; void **vp = IN.res_null ? NULL : &vres;
#if FN == 44
    rc = _memchr_s_chk(dp, dmax, IN.ch, vp, destbos);
#else
    rc = _memrchr_s_chk(dp, dmax, IN.ch, vp, destbos);
#endif
    notfound_ok = 1;
    if (!IN.dest_null && !IN.res_null && dmax > 0 && dmax <= dext && IN.ch >= 0 && IN.ch <= 255) {
        int found = 0; size_t ref = 0;
        for (size_t i = 0; i < M; i++) if (i < dmax && (unsigned char)d0[i] == IN.ch && (!found || FN == 45)) { found = 1; ref = i; }
        CHECK(rc == (found ? EOK : ESNOTFND), "C10: memchr_s/memrchr_s found/not-found differs from memchr/memrchr");
        if (found && rc == EOK) CHECK(vres == (void *)(dest + ref), "C10: memchr_s/memrchr_s returns a different position");
    } }
#endif
#elif FN >= 60   /* wide: wcscmp_s 60, wcsncmp_s 61, wcsstr_s 62, wmemcmp_s 63, wcsnlen_s 64 */
#if FN == 60 || FN == 61
#if FN == 60
    rc = _wcscmp_s_chk(dp, dmax, sp, slen, iresp, destbos, srcbos);
    size_t cnt = (size_t)-1;
#else
    rc = _wcsncmp_s_chk(dp, dmax, sp, slen, IN.count, iresp, destbos, srcbos);
    size_t cnt = IN.count;
#endif
    if (valid2 && slen > 0 && slen <= sext && slen <= RMAX && sl < slen && cnt > 0 && (FN == 60 || cnt <= RMAX)) {
        CHECK(rc == EOK, "C10: wcscmp_s/wcsncmp_s fails on valid operands");
        size_t i = 0; while (i < dl && i < sl && i + 1 < cnt && d0[i] == s0[i]) i++;
        int ref = (i < cnt) ? (d0[i] < s0[i] ? -1 : d0[i] > s0[i] ? 1 : 0) : 0;
        if (rc == EOK) CHECK(sgn(ires) == ref, "C10: wcscmp_s/wcsncmp_s sign differs from wcscmp/wcsncmp");
    }
#elif FN == 62
    rc = _wcsstr_s_chk(dp, dmax, sp, slen, ptrp, destbos, srcbos);
    notfound_ok = 1;
    if (valid2 && slen > 0 && slen <= sext && slen <= RMAX && sl < slen) {
        int found = 0; size_t ref = 0;
        for (size_t i = 0; i < M; i++) if (!found && i + sl <= dl) {
            int m = 1; for (size_t j = 0; j < M; j++) if (j < sl && (i + j >= M || d0[i + j < M ? i + j : 0] != s0[j])) m = 0;
            if (m) { found = 1; ref = i; }
        }
        CHECK(rc == (found ? EOK : ESNOTFND), "C10: wcsstr_s found/not-found differs from wcsstr");
        if (found && rc == EOK) CHECK(ptr == dest + ref, "C10: wcsstr_s returns a different position than wcsstr");
    }
#elif FN == 63
    rc = _wmemcmp_s_chk(dp, dmax, sp, slen, iresp, destbos, srcbos);
    if (!IN.dest_null && !IN.src_null && !IN.res_null && dmax > 0 && dmax <= dext && slen > 0 && slen <= sext && slen <= dmax) {
        CHECK(rc == EOK, "C10: wmemcmp_s fails on valid operands");
        size_t i = 0; while (i < slen && d0[i] == s0[i]) i++;
        int ref = i == slen ? 0 : (d0[i] < s0[i] ? -1 : 1);
        if (rc == EOK) CHECK(sgn(ires) == ref, "C10: wmemcmp_s sign differs from wmemcmp");
    }
#elif FN == 64
    { size_t r = _wcsnlen_s_chk(dp, dmax, destbos); notfound_ok = 1; rc = g_hcalls ? g_herr : EOK;
      if (!IN.dest_null && dmax > 0 && dmax <= dext && dmax <= RMAX) CHECK(r == nlen(d0, dmax), "C10: wcsnlen_s differs from wcsnlen"); }
#endif
#elif FN == 50   /* strnlen_s */
    { size_t r = _strnlen_s_chk(dp, dmax, destbos); notfound_ok = 1; rc = g_hcalls ? g_herr : EOK;
      if (!IN.dest_null && dmax > 0 && dmax <= dext && dmax <= RMAX) CHECK(r == nlen(d0, dmax), "C10: strnlen_s differs from strnlen"); }
#endif

    /* C05: handler exactly once with the returned code on a constraint violation */
    if (!is_bool) {
        int plain = (rc == EOK) || (notfound_ok && (rc == ESNOTFND || rc == ESNODIFF));
        CHECK(plain ? g_hcalls == 0 : g_hcalls == 1, "C05: handler invoked exactly once iff a constraint is violated");
        CHECK(plain || g_herr == rc, "C05: handler receives the code that is returned");
    } else {
        CHECK(g_hcalls <= 1, "C05: handler invoked more than once");
        CHECK(!bres || g_hcalls == 0, "C05: predicate returns true although a constraint violation was reported");
    }
    /* C10/C01: operands are never modified */
    for (size_t i = 0; i < M; i++) {
        if (i < dext) CHECK(dest[i] == d0[i], "C10/C01: query function modified its first operand");
        if (i < sext) CHECK(src[i] == s0[i], "C10/C01: query function modified its second operand");
    }
#if FN != 36   /* a valid password needs more characters than the bound allows */
    CANARY(rc != EOK, "success reachable");
#endif
    CANARY(g_hcalls == 0, "constraint violation reachable");
}
VERIF_MAIN(harness)
