/* tokfam.c - engine B (bounded) harness for strtok_s / wcstok_s call SEQUENCES (C14; also C01 C02 C05).
 * -DWIDE selects wcstok_s.  Bound: string buffer of at most N+1 elements (N default 4), two
 * delimiter sets of at most DL characters (default 2; -DDL=17 exercises the 16-character limit),
 * K calls (default N+3), the delimiter set chosen afresh for every call.
 * Reference: the C11 strtok_s algorithm written as plain index arithmetic on a private copy.
 */
#include "verif.h"
#include <wchar.h>
#include <errno.h>
#ifndef N
#define N 4
#endif
#ifndef DL
#define DL 2
#endif
#ifndef K
#define K (N + 3)
#endif
#define M (N + 1)
#ifdef WIDE
typedef wchar_t CH;
#define TOK(d, m, del, p, bos) _wcstok_s_chk(d, m, del, p, bos)
#define RMAX RSIZE_MAX_WSTR
#else
typedef char CH;
#define TOK(d, m, del, p, bos) _strtok_s_chk(d, m, del, p, bos)
#define RMAX RSIZE_MAX_STR
#endif

int g_hcalls; errno_t g_herr; void *g_hptr;
static void verif_handler(const char *restrict msg, void *restrict ptr, errno_t error)
{ (void)msg; (void)ptr; g_hcalls++; g_herr = error; }

struct {
    size_t bsz, dmax; unsigned char bos_known;
    CH buf[M];
    size_t d1len, d2len; CH d1[DL + 1], d2[DL + 1];
    unsigned char pick[K];
} IN;
#ifndef VERIF_REPLAY
size_t nondet_size_t(void); unsigned char nondet_uchar(void); CH nondet_ch(void);
static void draw(void)
{
    IN.bsz = nondet_size_t(); IN.dmax = nondet_size_t(); IN.bos_known = nondet_uchar();
    for (int i = 0; i < M; i++) IN.buf[i] = nondet_ch();
    IN.d1len = nondet_size_t(); IN.d2len = nondet_size_t();
    for (int i = 0; i <= DL; i++) { IN.d1[i] = nondet_ch(); IN.d2[i] = nondet_ch(); }
    for (int i = 0; i < K; i++) IN.pick[i] = nondet_uchar();
}
#else
static void draw(void)
{
#include "replay_in.h"
}
#endif

static CH *alloc_exact(size_t n)
{
    switch (n) {
    case 1: return malloc(1 * sizeof(CH)); case 2: return malloc(2 * sizeof(CH)); case 3: return malloc(3 * sizeof(CH));
    case 4: return malloc(4 * sizeof(CH)); case 5: return malloc(5 * sizeof(CH)); case 6: return malloc(6 * sizeof(CH));
#if DL > 5
    case DL + 1: return malloc((DL + 1) * sizeof(CH));
#endif
    default: return NULL;
    }
}
static int is_delim(CH c, const CH *d, size_t n) { for (size_t i = 0; i < DL + 1; i++) if (i < n && d[i] == c) return 1; return 0; }

void harness(void)
{
    draw();
    ASSUME(IN.bsz >= 1 && IN.bsz <= M && IN.bos_known <= 1);
    ASSUME(IN.d1len <= DL && IN.d2len <= DL);
    size_t bsz = IN.bsz, dmax0 = IN.dmax;
    ASSUME(dmax0 >= 1 && dmax0 <= bsz);                  /* truthful: the buffer has dmax elements */
    CH *buf = alloc_exact(bsz), *D1 = alloc_exact(IN.d1len + 1), *D2 = alloc_exact(IN.d2len + 1);
    ASSUME(buf && D1 && D2);
    CH m[M];                                              /* private model copy */
    for (size_t i = 0; i < M; i++) { if (i < bsz) buf[i] = IN.buf[i]; m[i] = i < bsz ? IN.buf[i] : 0; }
    /* delimiter sets: terminated strings of non-NUL characters, exact-fit objects */
    for (size_t i = 0; i <= DL; i++) {
        if (i < IN.d1len) { ASSUME(IN.d1[i] != 0); D1[i] = IN.d1[i]; } else if (i == IN.d1len) D1[i] = 0;
        if (i < IN.d2len) { ASSUME(IN.d2[i] != 0); D2[i] = IN.d2[i]; } else if (i == IN.d2len) D2[i] = 0;
    }
    size_t slen = 0; while (slen < dmax0 && m[slen]) slen++;
    int terminated = slen < dmax0;                        /* NUL within the declared size */
    size_t destbos = IN.bos_known ? bsz * sizeof(CH) : BOS_UNKNOWN;

    set_str_constraint_handler_s(verif_handler); thrd_set_str_constraint_handler_s(verif_handler);
    rsize_t dmax = dmax0; CH *ctx = NULL;
    size_t p = 0;              /* model: index where the next scan starts */
    int done = 0;              /* model: the string is exhausted */
    int errored = 0;
    for (int call = 0; call < K; call++) {
        const CH *D = (IN.pick[call] & 1) ? D2 : D1; size_t dn = (IN.pick[call] & 1) ? IN.d2len : IN.d1len;
        g_hcalls = 0; errno = 0;
        rsize_t dmax_before = dmax;
        if (call > 0 && (dmax == 0 || ctx == NULL)) break;       /* documented: nothing left to scan */
        CH *tok = TOK(call == 0 ? buf : NULL, &dmax, D, &ctx, call == 0 ? destbos : BOS_UNKNOWN);
        /* C01/C14: never anything at or beyond the original dmax is touched */
        for (size_t i = 0; i < M; i++) if (i > dmax0 && i < bsz) CHECK(buf[i] == IN.buf[i], "C14/C01: element beyond the original dmax modified");
        if (dmax0 < bsz) CHECK(buf[dmax0] == IN.buf[dmax0], "C14/C01: element at index dmax (first one past the declared size) modified");
        if (!terminated) {
            /* an unterminated string must end in an error (or harmless tokens before it) */
            if (tok == NULL && g_hcalls) { errored = 1; CHECK(g_hcalls == 1, "C05: handler invoked more than once"); break; }
            if (tok == NULL) {
                /* (when the element at index dmax exists and is NUL the library's look-ahead at that
                   element - itself a recorded finding - makes the string look terminated) */
                if (dmax0 < bsz && IN.buf[dmax0] != 0) CHECK(0, "C14: unterminated string: sequence ends without an error");
                break;
            }
            CHECK(tok >= buf && tok < buf + dmax0, "C14: token outside the original dmax");
            continue;
        }
        /* documented limit of the delimiter string: the library may report it (once) instead of
           tokenizing; when it does not (the scan never reached the 17th character) the result must
           still be the standard one */
        if (dn > STRTOK_DELIM_MAX_LEN && tok == NULL && g_hcalls == 1) break;
        /* ---- reference step */
        size_t t = p; while (t < slen && is_delim(m[t], D, dn)) t++;
        size_t exp_tok = (size_t)-1, e = 0;
        if (done || t >= slen) { done = 1; p = slen; }
        else { exp_tok = t; e = t; while (e < slen && !is_delim(m[e], D, dn)) e++; if (e < slen) { m[e] = 0; p = e + 1; } else { p = e; } }
        CHECK(g_hcalls == 0, "C05: handler invoked during a valid tokenizing sequence");
        if (exp_tok == (size_t)-1) CHECK(tok == NULL, "C14: a token is returned although none is left (token returned twice, or no NULL at the end)");
        else {
            if (dn == 0) CHECK(tok == buf + exp_tok, "C14: empty delimiter set: the rest of the string is not returned as one token");
            else CHECK(tok == buf + exp_tok, "C14: returned token is not the next maximal delimiter-free substring");
        }
        /* the buffer equals the model: only delimiter positions were overwritten, each with NUL */
        if (dn == 0 && tok != buf + exp_tok) break;       /* (recorded finding; nothing further to compare) */
        for (size_t i = 0; i < M; i++) if (i < bsz) CHECK(buf[i] == m[i], "C14: buffer differs from the reference (only the delimiter ending a token may be overwritten, by NUL)");
        /* remaining length never permits access past the original dmax */
        if (tok != NULL && ctx != NULL) CHECK(ctx >= buf && (size_t)(ctx - buf) + dmax <= dmax0, "C14: context pointer + remaining length reach past the original dmax");
        CHECK(dmax <= dmax_before, "C14: remaining length grew");
    }
    CANARY(!(terminated && p >= (N >= 2 ? 2 : 1)), "scan steps reachable");
    CANARY(!errored, "unterminated-string error reachable");
}
VERIF_MAIN(harness)
