/* slackfam.c - engine B (bounded) harness for the slack-nulling code of the copy / concatenate
 * family on the far side of its `dmax > 0x20` switch (memset instead of the element loop), which
 * the small-string harness copyfam.c never reaches: C08, C01, C03, C04, C06.
 *
 *   -DFN=1..6 [-DWIDE]   as in copyfam.c
 *   -DDIR=0  dest below src,  -DDIR=1  dest above src   (the library has one code copy per order)
 *   -DLONGSRC            source of DM non-zero elements: the call must fail (no space) and zero
 *                        all of dest through the same switch in the error path
 * One arena of AN elements at CONCRETE offsets; dest has DM (=40) elements, dmax symbolic in
 * 38..DM, every element of the arena symbolic (arbitrary prior contents), strings of at most SL
 * elements (-DSL, default 2), slen symbolic 0..SL+1.  libc memset is given by stubs/memset_model.c.
 */
#include "verif.h"
#include <wchar.h>

#ifndef SL
#define SL 2                 /* longest string (elements) in short mode */
#endif
#define DMIN (0x20 + 2 * SL + 2)   /* more than 0x20 elements remain behind the longest result */
#define DM (DMIN + 2)
#define SM (SL + 1)          /* source extent (short mode) */
#ifdef LONGSRC
#define SEXT (DM + 1)
#else
#define SEXT SM
#endif
#define GUARD 2
#define AN (GUARD + DM + GUARD + SEXT + GUARD)
#ifndef DIR
#define DIR 0
#endif
#if DIR == 0
#define DOFF GUARD
#define SOFF (GUARD + DM + GUARD)
#else
#define SOFF GUARD
#define DOFF (GUARD + SEXT + GUARD)
#endif

#ifdef WIDE
typedef wchar_t CH;
#else
typedef char CH;
#endif
#if FN == 3 || FN == 4 || FN == 6
#define HAS_SLEN 1
#else
#define HAS_SLEN 0
#endif
#if FN == 2 || FN == 4
#define IS_CAT 1
#else
#define IS_CAT 0
#endif

int g_hcalls; errno_t g_herr; void *g_hptr;
static void verif_handler(const char *restrict msg, void *restrict ptr, errno_t error)
{ (void)msg; (void)ptr; g_hcalls++; g_herr = error; }

struct { size_t dmax, slen; CH mem[AN]; } IN;
#ifndef VERIF_REPLAY
size_t nondet_size_t(void); CH nondet_ch(void);
static void draw(void)
{
    IN.dmax = nondet_size_t(); IN.slen = nondet_size_t();
    for (int i = 0; i < AN; i++) IN.mem[i] = nondet_ch();
}
#else
static void draw(void)
{
#include "replay_in.h"
}
#endif

static CH arena[AN];

void harness(void)
{
    draw();
    size_t dmax = IN.dmax, slen = IN.slen;
    ASSUME(dmax >= DMIN && dmax <= DM);
    ASSUME(slen <= SL + 1);
    for (int i = 0; i < AN; i++) arena[i] = IN.mem[i];
    CH *dest = arena + DOFF, *src = arena + SOFF;
    /* source: terminated within SM (short) or DM non-zero elements + NUL (long) */
    size_t sl = 0;
#ifdef LONGSRC
    for (int i = 0; i < DM; i++) ASSUME(src[i] != 0);
    ASSUME(src[DM] == 0); sl = DM;
    ASSUME(!HAS_SLEN || 1);
#else
    ASSUME(src[SM - 1] == 0);
    while (sl < SM && src[sl]) sl++;
#endif
    /* concatenation: dest holds a string of at most 2 elements */
    size_t dl = 0;
#if IS_CAT
    ASSUME(dest[SL] == 0);
    while (dl < SL && dest[dl]) dl++;
#endif
    size_t cl = sl;
#if HAS_SLEN
#ifdef LONGSRC
    slen = DM + 1 - (IN.slen & 1);       /* DM or DM+1: more than fits either way */
#endif
    if (slen < cl) cl = slen;
#endif
    set_str_constraint_handler_s(verif_handler); thrd_set_str_constraint_handler_s(verif_handler);
    g_hcalls = 0;
    errno_t rc = -1; CH *endp = NULL; errno_t err_out = 12345;
#ifndef WIDE
#if FN == 1
    rc = _strcpy_s_chk(dest, dmax, src, BOS_UNKNOWN);
#elif FN == 2
    rc = _strcat_s_chk(dest, dmax, src, BOS_UNKNOWN);
#elif FN == 3
    rc = _strncpy_s_chk(dest, dmax, src, slen, BOS_UNKNOWN, BOS_UNKNOWN);
#elif FN == 4
    rc = _strncat_s_chk(dest, dmax, src, slen, BOS_UNKNOWN, BOS_UNKNOWN);
#elif FN == 5
    endp = _stpcpy_s_chk(dest, dmax, src, &err_out, BOS_UNKNOWN, BOS_UNKNOWN); rc = err_out;
#elif FN == 6
    endp = _stpncpy_s_chk(dest, dmax, src, slen, &err_out, BOS_UNKNOWN, BOS_UNKNOWN); rc = err_out;
#endif
#else
#if FN == 1
    rc = _wcscpy_s_chk(dest, dmax, src, BOS_UNKNOWN);
#elif FN == 2
    rc = _wcscat_s_chk(dest, dmax, src, BOS_UNKNOWN);
#elif FN == 3
    rc = _wcsncpy_s_chk(dest, dmax, src, slen, BOS_UNKNOWN, BOS_UNKNOWN);
#elif FN == 4
    rc = _wcsncat_s_chk(dest, dmax, src, slen, BOS_UNKNOWN, BOS_UNKNOWN);
#endif
#endif
    (void)endp;
    /* C01: everything outside dest[0..dmax) is unchanged */
    for (int i = 0; i < AN; i++)
        if (i < DOFF || (size_t)i >= DOFF + dmax)
            CHECK(arena[i] == IN.mem[i], "C01: element outside dest[0..dmax) modified (slack nulling through memset)");
#if HAS_SLEN
    if (slen == 0) return;               /* documented special case, covered by copyfam.c */
#endif
#ifdef LONGSRC
    CHECK(rc != EOK, "C06: success although the result does not fit");
    if (rc != EOK) {
        for (int i = 0; i < DM; i++) if ((size_t)i < dmax) CHECK(dest[i] == 0, "C04: failed call does not zero all of dest (dmax > 0x20 side)");
        CHECK(g_hcalls == 1 && g_herr == rc, "C05: failure on the dmax > 0x20 side not reported exactly once with the returned code");
    }
    CANARY(rc == EOK, "failure reachable");
#else
    CHECK(rc == EOK, "C06: valid disjoint operands whose result fits are rejected");
    if (rc != EOK) return;
    for (size_t i = 0; i < 2 * SL + 2; i++) {
        if (i < dl) CHECK(dest[i] == IN.mem[DOFF + i], "C06: concatenation changed the existing prefix of dest");
        else if (i < dl + cl) CHECK(dest[i] == IN.mem[SOFF + i - dl], "C06: copied element differs from the source");
    }
    CHECK(dest[dl + cl] == 0, "C03/C06: result not terminated at its exact length");
    for (int i = 0; i < DM; i++)
        if ((size_t)i > dl + cl && (size_t)i < dmax)
            CHECK(dest[i] == 0, "C08: stale element behind the terminator after success (dmax > 0x20 side)");
    CHECK(g_hcalls == 0, "C05: handler invoked although the call succeeded");
    CANARY(rc != EOK, "success reachable");
    CANARY(!(rc == EOK && dl + cl == 0), "empty result reachable");
    CANARY(!(rc == EOK && dl + cl >= (IS_CAT ? SL + 1 : SL)), "longest results reachable");
#endif
}
VERIF_MAIN(harness)
