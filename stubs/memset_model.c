/* memset_model.c - replaces CBMC's built-in memset model in jobs whose destination objects are
 * not byte arrays.  (Measured: the built-in model's array_replace over a byte view of a
 * wchar_t object with a symbolic length yields spurious contents - a verifier artefact that
 * did not replay natively.)  Same precondition as the built-in model; element-wise stores
 * for the aligned, zero-fill, multiple-of-4 case the library uses, byte stores otherwise.
 * The loops are unwound under the job's --unwind bound with unwinding assertions. */
#include <stddef.h>
void *memset(void *s, int c, size_t n)
{
    __CPROVER_precondition(__CPROVER_w_ok(s, n), "memset destination region writeable");
    if (c == 0 && (n & 3) == 0 && (__CPROVER_POINTER_OFFSET(s) & 3) == 0) {
        int *w = (int *)s;
        for (size_t i = 0; i < n / 4; i++)
            w[i] = 0;
    } else {
        unsigned char *b = (unsigned char *)s;
        for (size_t i = 0; i < n; i++)
            b[i] = (unsigned char)c;
    }
    return s;
}
