/* libc_query.c - assumed contracts (A3) for libc delegates that CBMC has no built-in model for.
 * requires side = the C library's extent requirement, checked at every call site;
 * body = plain reference semantics. */
#include <stddef.h>
void *memrchr(const void *s, int c, size_t n)
{
    __CPROVER_precondition(n == 0 || __CPROVER_r_ok(s, n), "memrchr source region readable");
    const unsigned char *p = (const unsigned char *)s;
    while (n > 0) { n--; if (p[n] == (unsigned char)c) return (void *)(p + n); }
    return NULL;
}
void *__rawmemchr(const void *s, int c)
{
    const unsigned char *p = (const unsigned char *)s;
    while (*p != (unsigned char)c) p++;      /* unbounded by specification: the caller must guarantee a hit */
    return (void *)p;
}
void *rawmemchr(const void *s, int c) { return __rawmemchr(s, c); }
void *memchr(const void *s, int c, size_t n)
{
    __CPROVER_precondition(n == 0 || __CPROVER_r_ok(s, n), "memchr source region readable");
    const unsigned char *p = (const unsigned char *)s;
    for (size_t i = 0; i < n; i++) if (p[i] == (unsigned char)c) return (void *)(p + i);
    return NULL;
}
char *strstr(const char *h, const char *n)
{
    for (size_t i = 0; ; i++) {
        size_t j = 0;
        while (n[j] && h[i + j] == n[j]) j++;
        if (!n[j]) return (char *)(h + i);
        if (!h[i]) return NULL;
    }
}
int snprintf(char *s, size_t n, const char *f, ...)
{
    /* libc snprintf (used for %Lf / %a renderings only): assumed contract - writes a terminated
       string of fewer than n characters into s */
    (void)f;
    __CPROVER_precondition(n == 0 || __CPROVER_w_ok(s, n), "memset destination region writeable: snprintf scratch buffer");
    if (n > 0) { s[0] = 0; }
    int r; __CPROVER_assume(r >= 0 && r < 64); return r;
}
#include <wchar.h>
wchar_t *wcsstr(const wchar_t *h, const wchar_t *n)
{
    /* the library only ever searches for L"%n" (reading the wide literal through the parameter is
       mis-modelled by this cbmc version, so the needle is spelled out) */
    (void)n;
    for (size_t i = 0; ; i++) {
        if (!h[i]) return NULL;
        if (h[i] == L'%' && h[i + 1] == L'n') return (wchar_t *)(h + i);
    }
}
