/* qsort_parts.spec.c - contracts for the leaf functions of the smoothsort in src/misc/qsort_s.c
 * (C16), each enforced on the real code (the source file is #included so that the file-local
 * functions are in scope).  The whole sort (sift / trinkle / qsort_musl with these helpers) is
 * NOT verified end to end: the monolithic bounded run does not fit (10 M variables at nmemb 2).
 *
 *  -DPART=1  cycle(width, ar, n): rotates the n elements ar[0..n-1] by one position through the
 *            bounce buffer, for every n <= 3 and the element width W (concrete, incl. > 256,
 *            where the copy is chunked): engine B (bounded in n, width enumerated by job).
 *  -DPART=2  shl / shr: 128-bit shifts of p[1]:p[0] for every shift amount the sort can pass
 *            (1..127 except 64, see pntz), full domain: engine C.
 *  -DPART=3  pntz: position of the lowest set bit of the 128-bit value minus one, full domain.
 */
#include "verif.h"
int g_hcalls; errno_t g_herr; void *g_hptr;
#ifndef W
#define W 4
#endif
#if W > 64
#define NE 2
#else
#define NE 3
#endif
static unsigned char g_buf[(NE + 1) * W];
static unsigned char *g_ar[NE + 2];
size_t gk; int gi;      /* arbitrary byte offset inside an element / arbitrary element */
static unsigned char g_old[NE][1]; /* (snapshots are taken by the harness) */

#if PART == 1
static void cycle(size_t width, unsigned char *ar[], int n)
__CPROVER_requires(width == W && 0 <= n && n <= NE && ar == g_ar)
__CPROVER_assigns(__CPROVER_object_whole(g_buf), __CPROVER_object_whole(g_ar))
;
#elif PART == 2 || PART == 4
static inline void shl(size_t p[2], int n)
__CPROVER_requires(n >= 1 && n <= 127 && n != 64 && __CPROVER_rw_ok(p, 2 * sizeof(size_t)))
__CPROVER_assigns(p[0], p[1])
__CPROVER_ensures(((unsigned __int128)p[1] << 64 | p[0]) == (((unsigned __int128)__CPROVER_old(p[1]) << 64 | __CPROVER_old(p[0])) << n)) /* @C16 */
;
static inline void shr(size_t p[2], int n)
__CPROVER_requires(n >= 1 && n <= 127 && n != 64 && __CPROVER_rw_ok(p, 2 * sizeof(size_t)))
__CPROVER_assigns(p[0], p[1])
__CPROVER_ensures(((unsigned __int128)p[1] << 64 | p[0]) == (((unsigned __int128)__CPROVER_old(p[1]) << 64 | __CPROVER_old(p[0])) >> n)) /* @C16 */
;
#elif PART == 3
static inline int pntz(size_t p[2])
__CPROVER_requires(__CPROVER_r_ok(p, 2 * sizeof(size_t)))
__CPROVER_assigns()
__CPROVER_ensures(__CPROVER_return_value == 0 || (__CPROVER_return_value >= 1 && __CPROVER_return_value <= 63) || (__CPROVER_return_value >= 65 && __CPROVER_return_value <= 127)) /* @C16 */
__CPROVER_ensures((__CPROVER_return_value >= 1 && __CPROVER_return_value <= 63) ==> ((((p[0] - 1) >> __CPROVER_return_value) & 1) == 1 && ((p[0] - 1) & (((size_t)1 << __CPROVER_return_value) - 1)) == 0)) /* @C16 */
;
#endif

#include "misc/qsort_s.c"

size_t nondet_size_t(void); int nondet_int(void); unsigned char nondet_uchar(void);
void harness(void)
{
#if PART == 1
    int n = nondet_int();
    __CPROVER_assume(n >= 0 && n <= NE);
    /* the n elements are distinct W-byte slots of g_buf, in an arbitrary order */
    unsigned s0 = nondet_uchar(), s1 = nondet_uchar(), s2 = nondet_uchar();
    __CPROVER_assume(s0 <= NE && s1 <= NE && s2 <= NE && s0 != s1 && s0 != s2 && s1 != s2);
#if W > 64
    __CPROVER_assume(s0 == 1 && s1 == 0 && n == NE);   /* wide elements: one fixed (reversed) slot order and n = 2 keep every copy concrete */
#endif
    g_ar[0] = g_buf + s0 * W; g_ar[1] = g_buf + s1 * W;
#if NE >= 3
    g_ar[2] = g_buf + s2 * W;
    unsigned slot[NE] = {s0, s1, s2};
#else
    unsigned slot[NE] = {s0, s1};
#endif
    __CPROVER_assume(gk < W && gi >= 0 && gi < n);
    /* old contents at offset gk of every element and of the untouched slot */
    unsigned char old[NE + 1];
    for (int i = 0; i <= NE; i++) old[i] = g_buf[i * W + gk];
    cycle(W, g_ar, n);
    if (n >= 2) {
        /* element gi receives what element gi+1 held; the last one receives the first */
        unsigned from = slot[(gi + 1 == n) ? 0 : gi + 1];
        __CPROVER_assert(g_buf[slot[gi] * W + gk] == old[from], "C16: cycle() does not rotate the elements by one position (byte-wise, every width)");
    } else {
        __CPROVER_assert(g_buf[slot[0] * W + gk] == old[slot[0]], "C16: cycle() with fewer than two elements changed an element");
    }
    /* slots that are not among the n elements are untouched */
    for (int i = 0; i <= NE; i++) {
        int used = 0; for (int j = 0; j < NE; j++) if (j < n && slot[j] == (unsigned)i) used = 1;
        if (!used) __CPROVER_assert(g_buf[i * W + gk] == old[i], "C16/C01: cycle() modified memory that is not one of the n elements");
    }
    __CPROVER_assert(n < NE || gk < W - 1, "CANARY: full rotation reachable, last byte of the element observed");
#elif PART == 2 || PART == 4
    size_t p[2]; int n = nondet_int();
#if PART == 2
    shl(p, n);
#else
    shr(p, n);
#endif
#elif PART == 3
    size_t p[2];
    int r = pntz(p);
    __CPROVER_assert(r != 70, "CANARY: high-word result reachable");
#endif
}
