/* Engine A: _bsearch_s_chk (src/misc/bsearch_s.c) under a loop contract, every nmemb (elements of
 * ESZ = 4 bytes - the size argument is a constant of the call so that the index arithmetic stays
 * linear; an int key; exact-fit array of symbolic length; object size known or unknown).
 * Without any assumption on the order of the array:
 *   C02  every element handed to the comparator lies inside base[0..nmemb) and is element-aligned
 *        (checked inside the comparator), every load of the function is inside the objects;
 *   C16  a returned pointer is an element of the array that compares equal to the key
 *        (the pointer is the witness); C05 codes; nothing is written (frame).
 * "NULL only if no element matches" needs the array to be sorted, a universally quantified
 * hypothesis: it stays with the bounded job B.bsearch_s.*.  The loop terminates (decreases nmemb).
 */
#include "verif.h"
#include <errno.h>
#include "ghost_bs.h"
#define ESZ 4
const char *g_base0; size_t g_n0, gk; int g_hcalls; int g_herr; unsigned g_ncmp;
static int g_key; static int g_ctx;
/* errno is (*__errno_location()): give the location a body so that the store is a named frame target */
int g_errno; int *__errno_location(void) { return &g_errno; }
void invoke_safe_mem_constraint_handler(const char *restrict m, void *restrict p, errno_t e)
{ g_hcalls++; g_herr = e; }

/* the caller's comparator: checks what it is handed (C02), then compares two ints */
static int verif_cmp(const void *k, const void *y, void *context)
{
    __CPROVER_assert(k == &g_key && context == &g_ctx, "C16: comparator receives the caller's key and context");
    __CPROVER_assert(__CPROVER_same_object(y, g_base0) && (size_t)__CPROVER_POINTER_OFFSET(y) % ESZ == 0 &&
                     (size_t)__CPROVER_POINTER_OFFSET(y) / ESZ < g_n0, "C02/C16: comparator is handed an element-aligned element of base[0..nmemb)");
    g_ncmp++;
    int a = *(const int *)k, b = *(const int *)y;
    return a < b ? -1 : a > b;
}

#define R ((const char *)__CPROVER_return_value)
#define UNK (basebos == BOS_UNKNOWN)
#define VALID (nmemb != 0 && ((UNK && nmemb <= RSIZE_MAX_MEM) || (!UNK && nmemb * ESZ <= basebos)))
void *_bsearch_s_chk(const void *key, const void *base, rsize_t nmemb, rsize_t size,
                     int (*compar)(const void *k, const void *y, void *context), void *context, const size_t basebos)
__CPROVER_requires(key == &g_key && context == &g_ctx && compar == verif_cmp && size == ESZ)
__CPROVER_requires(base == g_base0 && nmemb == g_n0 && g_hcalls == 0 && nmemb <= (size_t)-1 / ESZ)
__CPROVER_requires(nmemb == 0 || __CPROVER_r_ok(base, nmemb * ESZ))
__CPROVER_requires(UNK || basebos == (nmemb == 0 ? ESZ : nmemb * ESZ))
__CPROVER_assigns(g_hcalls, g_herr, g_ncmp, g_errno)
__CPROVER_ensures(VALID || nmemb == 0 ? g_hcalls == 0 : (g_hcalls == 1 && g_herr == ESLEMAX && R == NULL)) /* @C05 */
__CPROVER_ensures(R != NULL ==> (__CPROVER_same_object(R, g_base0) && (size_t)__CPROVER_POINTER_OFFSET(R) % ESZ == 0 && (size_t)__CPROVER_POINTER_OFFSET(R) / ESZ < nmemb)) /* @C16 */
__CPROVER_ensures(R != NULL ==> *(const int *)R == g_key) /* @C16 */
__CPROVER_ensures(nmemb == 0 ==> R == NULL) /* @C16 */
;

void harness(void)
{
    size_t nb, basebos;
    __CPROVER_assume(g_n0 <= RSIZE_MAX_MEM + 2);
    nb = (g_n0 == 0 ? 1 : g_n0) * ESZ;
    int *a = malloc(nb);                    /* exact fit */
    __CPROVER_assume(a != NULL);
    g_base0 = (const char *)a; g_hcalls = 0; g_ncmp = 0;
    void *r = _bsearch_s_chk(&g_key, a, g_n0, ESZ, verif_cmp, &g_ctx, basebos);
    /* non-vacuity: each must FAIL */
    CANARY(r == NULL, "found reachable");
    CANARY(!(r == NULL && g_hcalls == 0 && g_n0 > 4 && g_ncmp > 2), "not found after more than two comparisons reachable");
    CANARY(g_hcalls == 0, "constraint violation reachable");
    CANARY(!(r != NULL && basebos != BOS_UNKNOWN), "known object size reachable");
}
