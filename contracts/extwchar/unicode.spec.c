/* unicode.spec.c - engine C (loop-free / constant-table loops, FULL 2^32 domain) contracts for
 * the arithmetic parts of normalization and case folding (C17), on the real code
 * (src/extwchar/wcsnorm_s.c resp. towfc_s.c are #included so file-local functions are in scope).
 *
 *  -DPART=1  _composite_cp(cp, cp2): the Hangul clauses of UAX #15 / TUS 3.12 as postconditions
 *            (L+V -> LV, LV+T -> LVT with T in U+11A8..U+11C2, nothing else composes with a
 *            Hangul L or LV on the left), and: code points above U+10FFFF are rejected before
 *            any table is indexed.
 *  -DPART=2  _decomp_s on a Hangul syllable: L, V, (T) by the standard arithmetic, length 2/3,
 *            and composing them again gives the syllable back (round trip lemma).
 *  -DPART=3  iswfc(c) == number of characters _towfc_s_chk writes, for every c that folds to
 *            more than one character, and never fewer slots than written (all 2^32 c).
 *  -DPART=4  _decomp_s(dest, dmax, cp) for every cp <= U+10FFFF and every dmax: every table
 *            index in bounds, at most dmax elements written (pointer/frame obligations).
 * Conformance of the 17 k table entries to the UCD is NOT claimed (no oracle in reach).
 */
#include "verif.h"
#include <wchar.h>
int g_hcalls; errno_t g_herr; void *g_hptr;
void invoke_safe_str_constraint_handler(const char *restrict m, void *restrict p, errno_t e) { (void)m; (void)p; g_hcalls++; g_herr = e; }

#define SBase 0xAC00u
#define LBase 0x1100u
#define VBase 0x1161u
#define TBase 0x11A7u
#define LCount 19u
#define VCount 21u
#define TCount 28u
#define SCount 11172u
#define IS_L(c) ((c) >= LBase && (c) < LBase + LCount)
#define IS_V(c) ((c) >= VBase && (c) < VBase + VCount)
#define IS_T(c) ((c) > TBase && (c) < TBase + TCount)
#define IS_S(c) ((c) >= SBase && (c) < SBase + SCount)
#define IS_LV(c) (IS_S(c) && (((c) - SBase) % TCount) == 0)

#if PART == 1 || PART == 2 || PART == 4
/* (PART 1: the postconditions are stated as assertions behind the call in the harness rather than as
   an enforced contract: legacy --enforce-contract havocs every non-const static object, and the
   composition tables UNWIF_compos* are declared without const) */
#include "extwchar/wcsnorm_s.c"
#else
/* assumed contracts (A3) for the single-character case mappers: any value; the count agreement
   checked here does not depend on them */
uint32_t nondet_u32(void);
uint32_t _towcase(uint32_t wc, int lower) { (void)wc; (void)lower; return nondet_u32(); }
uint32_t _towupper(uint32_t wc) { (void)wc; return nondet_u32(); }
wint_t towlower(wint_t wc) { (void)wc; return nondet_u32(); }
wint_t towupper(wint_t wc) { (void)wc; return nondet_u32(); }
int iswupper(wint_t wc) { (void)wc; return (int)nondet_u32(); }
#include "extwchar/towfc_s.c"
#endif

uint32_t nondet_u32(void); size_t nondet_size_t(void);
void harness(void)
{
#if PART == 1
    uint32_t cp = nondet_u32(), cp2 = nondet_u32();
    /* left operand: Hangul jamo / syllables, or out of range (the table-driven rest is not specified here) */
    __CPROVER_assume(IS_L(cp) || IS_S(cp) || cp > 0x10ffff || cp2 > 0x10ffff);
    __CPROVER_assume(cp2 != 0);
    uint32_t r = _composite_cp(cp, cp2);
    __CPROVER_assert(!(cp > 0x10ffff || cp2 > 0x10ffff) || r == (uint32_t)(-(ESLEMAX)), "C17: code point above U+10FFFF is not rejected by the composition lookup");
    __CPROVER_assert(!(cp <= 0x10ffff && cp2 <= 0x10ffff && IS_L(cp) && IS_V(cp2)) || r == SBase + ((cp - LBase) * VCount + (cp2 - VBase)) * TCount, "C17: Hangul L+V does not compose to the LV syllable of the standard arithmetic");
    __CPROVER_assert(!(cp2 <= 0x10ffff && IS_LV(cp) && IS_T(cp2)) || r == cp + (cp2 - TBase), "C17: Hangul LV+T does not compose to the LVT syllable of the standard arithmetic");
    __CPROVER_assert(!(cp2 <= 0x10ffff && IS_S(cp) && !(IS_LV(cp) && IS_T(cp2))) || r == 0, "C17: a Hangul syllable composes with something that is not a trailing consonant U+11A8..U+11C2");
    __CPROVER_assert(!(cp2 <= 0x10ffff && IS_L(cp) && !IS_V(cp2)) || r == 0, "C17: a Hangul leading consonant composes with something that is not a vowel");
    __CPROVER_assert(!(IS_LV(cp) && r != 0), "CANARY: LV+T composition reachable");
    __CPROVER_assert(!(IS_L(cp) && r != 0), "CANARY: L+V composition reachable");
    __CPROVER_assert(r != (uint32_t)(-(ESLEMAX)), "CANARY: out-of-range rejection reachable");
#elif PART == 2
    uint32_t s = nondet_u32();
    __CPROVER_assume(IS_S(s));
    wchar_t d[5]; size_t dmax = nondet_size_t();
    __CPROVER_assume(dmax >= 4 && dmax <= 5);
    int n = _decomp_s(d, dmax, s, 0);
    uint32_t sidx = s - SBase, t = sidx % TCount;
    __CPROVER_assert(n == (t ? 3 : 2), "C17: Hangul syllable decomposes to the wrong number of jamo");
    __CPROVER_assert((uint32_t)d[0] == LBase + sidx / (VCount * TCount) && (uint32_t)d[1] == VBase + (sidx % (VCount * TCount)) / TCount, "C17: Hangul L/V decomposition differs from the standard arithmetic");
    __CPROVER_assert(t == 0 || (uint32_t)d[2] == TBase + t, "C17: Hangul T decomposition differs from the standard arithmetic");
    __CPROVER_assert(d[n] == 0, "C17/C03: decomposition not terminated");
    uint32_t lv = _composite_cp((uint32_t)d[0], (uint32_t)d[1]);
    uint32_t back = t ? _composite_cp(lv, (uint32_t)d[2]) : lv;
    __CPROVER_assert(back == s, "C17: decomposing a Hangul syllable and composing it again does not give the syllable back");
    __CPROVER_assert(t == 0, "CANARY: LVT syllable reachable");
#elif PART == 3
    uint32_t c = nondet_u32();
    wchar_t d[4] = {0x5a5a, 0x5a5a, 0x5a5a, 0x5a5a};
    int ann = iswfc(c);
    int n = _towfc_s_chk(d, 4, c, BOS_UNKNOWN);
    __CPROVER_assert(ann >= 0 && ann <= 3, "C17: iswfc announces an impossible length");
    __CPROVER_assert((ann == 2 || ann == 3) == (n == 2 || n == 3), "C17: iswfc and towfc_s disagree on whether the character folds to several characters");
    __CPROVER_assert(!(n == 2 || n == 3) || n == ann, "C17: towfc_s writes a different number of characters than iswfc announces");
    if (n == 2) __CPROVER_assert(d[0] != 0 && d[1] != 0 && d[2] == 0, "C17: two-character folding not written as two characters plus terminator");
    if (n == 3) __CPROVER_assert(d[0] != 0 && d[1] != 0 && d[2] != 0 && d[3] == 0, "C17: three-character folding not written as three characters plus terminator");
    __CPROVER_assert(n != 3, "CANARY: three-character folding reachable");
    __CPROVER_assert(n != 2, "CANARY: two-character folding reachable");
#elif PART == 4
    uint32_t cp = nondet_u32(); size_t dmax = nondet_size_t();
    __CPROVER_assume(cp <= 0x10ffff && dmax >= 1 && dmax <= 20);
    wchar_t *d = malloc(dmax * sizeof(wchar_t));
    __CPROVER_assume(d != NULL);
    int n = _decomp_s(d, dmax, cp, 0);
    __CPROVER_assert(n < 0 || (size_t)n < dmax, "C17/C01: _decomp_s reports more characters than fit in dmax");
    __CPROVER_assert(n <= 1, "CANARY: multi-character decomposition reachable");
#endif
}
