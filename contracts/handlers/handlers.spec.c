/* Engine C (loop-free, full domain): contracts for the six functions of
 * src/str/safe_str_constraint.c and src/mem/safe_mem_constraint.c that implement constraint-
 * handler registration and dispatch (C13, and the reporting primitive of C05).
 * The two real source files are #included, unmodified, so that their file-local cells are in
 * scope of the contracts.  Each operation is verified from an ARBITRARY pre-state (every cell
 * any of: NULL, three distinguishable handlers, the default), which is the induction step of
 * "for all histories". */
#include "verif.h"

int g_called;                 /* which handler ran: 1,2,3 = h1..h3, 9 = default (ignore_handler_s) */
int g_ncalls;
const char *g_msg; void *g_ptr; errno_t g_err;
int g_hcalls; errno_t g_herr; void *g_hptr;   /* (verif.h externs, unused here) */

#define REC(id) do { g_called = (id); g_ncalls++; g_msg = msg; g_ptr = ptr; g_err = error; } while (0)
static void h1(const char *restrict msg, void *restrict ptr, errno_t error) { REC(1); }
static void h2(const char *restrict msg, void *restrict ptr, errno_t error) { REC(2); }
static void h3(const char *restrict msg, void *restrict ptr, errno_t error) { REC(3); }
/* ghost body for the default handler (the real one ignores its arguments) */
void ignore_handler_s(const char *restrict msg, void *restrict ptr, errno_t error) { REC(9); }

/* tentative definitions of the cells, completed by the real definitions in the included files */
static constraint_handler_t str_handler;
static _Thread_local constraint_handler_t thrd_str_handler;
static constraint_handler_t mem_handler;
static _Thread_local constraint_handler_t thrd_mem_handler;

#define VALID(c) ((c) == NULL || (c) == h1 || (c) == h2 || (c) == h3 || (c) == ignore_handler_s)
#define ID(c) ((c) == h1 ? 1 : (c) == h2 ? 2 : (c) == h3 ? 3 : 9)
#define EFFECTIVE(tl, g) ((tl) != NULL ? ID(tl) : (g) != NULL ? ID(g) : 9)

constraint_handler_t set_str_constraint_handler_s(constraint_handler_t handler)
__CPROVER_requires(VALID(handler) && VALID(str_handler))
__CPROVER_assigns(str_handler)
__CPROVER_ensures(__CPROVER_return_value == __CPROVER_old(str_handler)) /* @C13 returns the previous handler of the same kind */
__CPROVER_ensures(str_handler == (handler ? handler : ignore_handler_s)) /* @C13 NULL selects the default */
;
constraint_handler_t thrd_set_str_constraint_handler_s(constraint_handler_t handler)
__CPROVER_requires(VALID(handler) && VALID(thrd_str_handler))
__CPROVER_assigns(thrd_str_handler)
__CPROVER_ensures(__CPROVER_return_value == __CPROVER_old(thrd_str_handler)) /* @C13 */
__CPROVER_ensures(thrd_str_handler == (handler ? handler : ignore_handler_s)) /* @C13 */
;
constraint_handler_t set_mem_constraint_handler_s(constraint_handler_t handler)
__CPROVER_requires(VALID(handler) && VALID(mem_handler))
__CPROVER_assigns(mem_handler)
__CPROVER_ensures(__CPROVER_return_value == __CPROVER_old(mem_handler)) /* @C13 */
__CPROVER_ensures(mem_handler == (handler ? handler : ignore_handler_s)) /* @C13 */
;
constraint_handler_t thrd_set_mem_constraint_handler_s(constraint_handler_t handler)
__CPROVER_requires(VALID(handler) && VALID(thrd_mem_handler))
__CPROVER_assigns(thrd_mem_handler)
__CPROVER_ensures(__CPROVER_return_value == __CPROVER_old(thrd_mem_handler)) /* @C13 */
__CPROVER_ensures(thrd_mem_handler == (handler ? handler : ignore_handler_s)) /* @C13 */
;
void invoke_safe_str_constraint_handler(const char *restrict msg, void *restrict ptr, errno_t error)
__CPROVER_requires(VALID(str_handler) && VALID(thrd_str_handler) && g_ncalls == 0)
__CPROVER_assigns(g_called, g_ncalls, g_msg, g_ptr, g_err)
__CPROVER_ensures(g_ncalls == 1) /* @C13 @C05 exactly one handler runs */
__CPROVER_ensures(g_called == EFFECTIVE(thrd_str_handler, str_handler)) /* @C13 thread-local, else global, else default */
__CPROVER_ensures(g_msg == msg && g_ptr == ptr && g_err == error) /* @C13 @C05 arguments passed through unchanged */
;
void invoke_safe_mem_constraint_handler(const char *msg, void *ptr, errno_t error)
__CPROVER_requires(VALID(mem_handler) && VALID(thrd_mem_handler) && g_ncalls == 0)
__CPROVER_assigns(g_called, g_ncalls, g_msg, g_ptr, g_err)
__CPROVER_ensures(g_ncalls == 1) /* @C13 @C05 */
__CPROVER_ensures(g_called == EFFECTIVE(thrd_mem_handler, mem_handler)) /* @C13 */
__CPROVER_ensures(g_msg == msg && g_ptr == ptr && g_err == error) /* @C13 @C05 */
;

#include "str/safe_str_constraint.c"
#include "mem/safe_mem_constraint.c"

static constraint_handler_t pick(unsigned char c)
{ return c == 0 ? NULL : c == 1 ? h1 : c == 2 ? h2 : c == 3 ? h3 : ignore_handler_s; }

unsigned char nondet_uchar(void);
void harness(void)
{
    /* arbitrary pre-state of all four cells */
    str_handler = pick(nondet_uchar()); thrd_str_handler = pick(nondet_uchar());
    mem_handler = pick(nondet_uchar()); thrd_mem_handler = pick(nondet_uchar());
    constraint_handler_t s0 = str_handler, ts0 = thrd_str_handler, m0 = mem_handler, tm0 = thrd_mem_handler;
    constraint_handler_t h = pick(nondet_uchar());
    const char *msg; void *ptr; errno_t err;
    g_ncalls = 0; g_called = 0;
    switch (OP) {
    case 1: set_str_constraint_handler_s(h); break;
    case 2: thrd_set_str_constraint_handler_s(h); break;
    case 3: set_mem_constraint_handler_s(h); break;
    case 4: thrd_set_mem_constraint_handler_s(h); break;
    case 5: invoke_safe_str_constraint_handler(msg, ptr, err); break;
    case 6: invoke_safe_mem_constraint_handler(msg, ptr, err); break;
    }
    /* frame, restated as assertions: the other cells are untouched (independence of the string
       and memory registrations, and of the global and thread-local cell) */
    __CPROVER_assert(OP == 1 || str_handler == s0, "C13: str global cell changed by another operation");
    __CPROVER_assert(OP == 2 || thrd_str_handler == ts0, "C13: str thread-local cell changed by another operation");
    __CPROVER_assert(OP == 3 || mem_handler == m0, "C13: mem global cell changed by another operation");
    __CPROVER_assert(OP == 4 || thrd_mem_handler == tm0, "C13: mem thread-local cell changed by another operation");
    __CPROVER_assert(OP >= 5 || g_ncalls == 0, "C13: registration invoked a handler");
#if OP >= 5
    __CPROVER_assert(g_called != 1, "CANARY: h1 reachable through dispatch");
    __CPROVER_assert(g_called != 9, "CANARY: default reachable through dispatch");
    __CPROVER_assert(!(g_called == 2 && (OP == 5 ? ts0 : tm0) == NULL), "CANARY: global handler reachable when no thread-local one is set");
#else
    __CPROVER_assert(h != NULL, "CANARY: registering NULL reachable");
    __CPROVER_assert(h != h3, "CANARY: registering h3 reachable");
#endif
}
