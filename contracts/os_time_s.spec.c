/* Engine C (loop-free, full domain): contracts for   FN 1 asctime_s   2 ctime_s
 * enforced on the real bodies.  Callees as contracts (ghost bodies, A3):
 *   asctime_r / ctime_r - assumed: NULL, or a NUL-terminated text of g_mlen < 120 characters stored in
 *       the buffer they are given (requires: at least 26 writable bytes, as C demands);
 *   strlen              - assumed: the length of that text;
 *   _strcpy_s_chk       - the contract proved by A.strcpy_s restated for a VALID destination (or the
 *       dest == src shortcut); its requires side is checked at the call site and tagged @C05: an invalid
 *       destination makes strcpy_s invoke the constraint handler although the caller reports success.
 * dest is an exact-fit object of symbolic size, dmax any value, destbos unknown or true, the time operand
 * NULL or an arbitrary value.  Stated (C05): handler never on success or on the plain -1 status, exactly
 * once with the returned code otherwise; a violated size constraint is always reported; a valid call whose
 * text fits succeeds. */
#include "verif.h"
#include <time.h>

char *g_dest0; char *g_buf; size_t g_ssz, g_mlen, gk; int g_fail; int g_hcalls; int g_herr; int g_ccalls, g_tcalls;
void invoke_safe_str_constraint_handler(const char *restrict m, void *restrict p, errno_t e)
{ g_hcalls++; g_herr = e; }
static char *time_stub(char *out)
{
    __CPROVER_precondition(__CPROVER_w_ok(out, 26), "memset destination region writeable: asctime_r/ctime_r is handed a buffer of less than 26 bytes");
    g_tcalls++;
    if (g_fail) return NULL;
    g_buf = out;
    return out;
}
char *asctime_r(const struct tm *tm, char *out) { (void)tm; return time_stub(out); }
char *ctime_r(const time_t *t, char *out) { (void)t; return time_stub(out); }
size_t strlen(const char *s)
{
    __CPROVER_precondition(s == g_buf && !g_fail, "strlen source region readable: called on something other than the rendered time text");
    return g_mlen;
}
errno_t _strcpy_s_chk(char *restrict dest, rsize_t dmax, const char *restrict src, const size_t destbos)
{
    __CPROVER_precondition(dest == g_dest0 && dmax != 0 && dmax <= g_ssz && (destbos == BOS_UNKNOWN ? dmax <= RSIZE_MAX_STR : dmax <= destbos) && src == g_buf && g_mlen < dmax,
                           "@C05 strcpy_s is called with operands that violate its own runtime-constraints: it invokes the handler while the caller reports success");
    g_ccalls++;
    return EOK;
}

#define R __CPROVER_return_value
#define UNK (destbos == BOS_UNKNOWN)
#define SZVALID (dest != NULL && dmax >= 26 && (UNK ? dmax <= RSIZE_MAX_STR : (dmax <= destbos && destbos >= 26)))
#if FN == 1
#define F _asctime_s_chk
#define TARG const struct tm *tp
#else
#define F _ctime_s_chk
#define TARG const time_t *tp
#endif
errno_t F(char *dest, rsize_t dmax, TARG, const size_t destbos)
__CPROVER_requires(dest == NULL || (dest == g_dest0 && __CPROVER_w_ok(dest, g_ssz)))
__CPROVER_requires(tp == NULL || __CPROVER_r_ok(tp, sizeof(*tp)))
__CPROVER_requires(g_ssz >= 1 && g_hcalls == 0 && g_ccalls == 0 && g_tcalls == 0 && g_mlen < 120)
__CPROVER_requires(UNK || destbos == g_ssz)
__CPROVER_requires((UNK && dest != NULL) ==> (dmax > RSIZE_MAX_STR || dmax <= g_ssz))
__CPROVER_assigns(g_hcalls, g_herr, g_ccalls, g_tcalls, g_buf; dest != NULL: __CPROVER_object_whole(dest))
__CPROVER_ensures((R == EOK || R == -1) ? g_hcalls == 0 : (g_hcalls == 1 && g_herr == R)) /* @C05 */
__CPROVER_ensures((!SZVALID || tp == NULL) ==> (R != EOK && R != -1 && g_tcalls == 0)) /* @C05 */
__CPROVER_ensures(!SZVALID ==> R == (dest == NULL ? ESNULLP : dmax < 26 ? ESLEMIN : (UNK ? dmax > RSIZE_MAX_STR : dmax > destbos) ? (dmax > RSIZE_MAX_STR ? ESLEMAX : EOVERFLOW) : ESLEMIN)) /* @C05 */
__CPROVER_ensures(g_tcalls == 1 ==> R == (g_fail ? -1 : g_mlen < dmax ? EOK : ESNOSPC)) /* @C05 */
;

void harness(void)
{
    size_t nb, dmax, destbos; int dnull, tnull;
    __CPROVER_assume(g_ssz >= 1 && g_ssz <= 2 * RSIZE_MAX_STR + 2 && g_mlen < 120);
    nb = g_ssz;
    char *d = malloc(nb);
#if FN == 1
    struct tm *tp = malloc(sizeof(struct tm));
#else
    time_t *tp = malloc(sizeof(time_t));
#endif
    __CPROVER_assume(d != NULL && tp != NULL);
    g_dest0 = d; g_hcalls = 0; g_ccalls = 0; g_tcalls = 0;
    errno_t r = F(dnull ? NULL : d, dmax, tnull ? NULL : tp, destbos);
    /* non-vacuity: each must FAIL */
    CANARY(!(r == EOK && dmax >= 120), "direct rendering into dest reachable");
    CANARY(!(r == EOK && dmax < 120), "rendering through the local buffer reachable");
    CANARY(r != -1, "libc failure reachable");
    CANARY(r != ESNOSPC, "text does not fit reachable");
    CANARY(!(r == EOK && destbos != BOS_UNKNOWN), "known object size reachable");
    CANARY(g_hcalls == 0, "constraint violation reachable");
}
