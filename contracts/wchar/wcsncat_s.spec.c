/* Engine A: contract for the real _wcsncat_s_chk (src/wchar/wcsncat_s.c), all eight loops under loop
 * contracts, one arena of symbolic size (wide characters), disjoint extents in either order, sizes
 * symbolic up to RSIZE_MAX_WSTR, destbos/srcbos unknown, slen >= 1.
 * Proved: C01/C02 (frame, pointer obligations), C03, C04, C05, C08.  The exact-result clause (C06) is
 * not stated here (it needs the position where the scan of dest stopped; bounded job B.wcsncat_s.*).
 * memset is given a ghost-index contract: havoc of the region, the two observed elements zero. */
#include "verif.h"
#include "ghost_wcs.h"

wchar_t *g_arena; size_t g_asz, g_doff, g_soff, g_ssz;
size_t gk, gj;
int g_hcalls; int g_herr;
void *g_hptr;

void invoke_safe_str_constraint_handler(const char *restrict m, void *restrict p, errno_t e)
{ (void)m; (void)p; g_hcalls++; g_herr = e; }

/* ghost-index model of memset(s, 0, n) on the wide arena: the n bytes are havocked, the observed
   elements dest[gk], dest[gj] that lie completely inside hold zero afterwards */
void *memset(void *s, int c, size_t n)
{
    __CPROVER_precondition(n == 0 || __CPROVER_w_ok(s, n), "memset destination region writeable");
    __CPROVER_precondition(c == 0, "memset model: zero fill only");
    if (n > 0) {
        __CPROVER_havoc_slice(s, n);
        wchar_t *base = g_arena + g_doff;
        char *lo = (char *)s, *hi = (char *)s + n;
        if ((char *)(base + gk) >= lo && (char *)(base + gk + 1) <= hi) __CPROVER_assume(base[gk] == 0);
        if ((char *)(base + gj) >= lo && (char *)(base + gj + 1) <= hi) __CPROVER_assume(base[gj] == 0);
    }
    return s;
}

errno_t _wcsncat_s_chk(wchar_t *restrict dest, rsize_t dmax, const wchar_t *restrict src, rsize_t slen,
                       const size_t destbos, const size_t srcbos)
__CPROVER_requires(destbos == BOS_UNKNOWN && srcbos == BOS_UNKNOWN)
__CPROVER_requires(dest == g_arena + g_doff)
__CPROVER_requires(src == g_arena + g_soff)
__CPROVER_requires(1 <= dmax && dmax <= RSIZE_MAX_WSTR && g_doff <= g_asz && dmax <= g_asz - g_doff)
__CPROVER_requires(1 <= slen && slen <= RSIZE_MAX_WSTR)
__CPROVER_requires(g_soff < g_asz && g_ssz >= 1 && g_ssz <= g_asz - g_soff)
__CPROVER_requires(src[g_ssz - 1] == 0 || g_ssz >= slen || g_ssz >= dmax)
__CPROVER_requires(gk < dmax && gj < dmax && g_hcalls == 0)
__CPROVER_requires(g_doff + dmax <= g_soff || g_soff + g_ssz <= g_doff)
__CPROVER_assigns(__CPROVER_object_upto(dest, dmax * sizeof(wchar_t)), g_hcalls, g_herr)
__CPROVER_ensures(__CPROVER_return_value == EOK ? g_hcalls == 0 : (g_hcalls == 1 && g_herr == __CPROVER_return_value)) /* @C05 */
__CPROVER_ensures(__CPROVER_return_value == EOK || __CPROVER_return_value == ESNOSPC || __CPROVER_return_value == ESUNTERM) /* @C05 */
__CPROVER_ensures(gk == dmax - 1 ==> dest[gk] == 0) /* @C03 */
__CPROVER_ensures((gj + 1 == gk && dest[gj] == 0) ==> dest[gk] == 0) /* @C08 */
__CPROVER_ensures(__CPROVER_return_value != EOK ==> dest[gk] == 0) /* @C04 */
;

void harness(void)
{
    __CPROVER_assume(g_asz >= 1 && g_asz <= 3 * RSIZE_MAX_WSTR);
    g_arena = malloc(g_asz * sizeof(wchar_t));
    __CPROVER_assume(g_arena != NULL);
    size_t dmax, slen;
    __CPROVER_assume(g_doff <= g_asz);
    __CPROVER_assume(g_soff < g_asz && g_ssz >= 1 && g_ssz <= g_asz - g_soff);
    g_hcalls = 0;
    _wcsncat_s_chk(g_arena + g_doff, dmax, g_arena + g_soff, slen, BOS_UNKNOWN, BOS_UNKNOWN);
}
