/* Engine C (loop-free, full domain): contract for strchr_s, enforced on the real body.
 * Its two callees are given as contracts (ghost bodies, A3):
 *   _strnlen_s_chk - the contract PROVED for the real function by job A.strnlen_s, restated: the
 *       result is smax or the index of the first NUL before it; its requires side, checked at the call
 *       site, is that it is handed exactly the caller's declared extent (dest, dmax) - C02;
 *   libc memchr    - assumed (as in memchr_s.spec.c); requires side: the n bytes handed over are
 *       readable (C02: never more than the string and its terminator, never past dmax).
 * dest is an exact-fit object of symbolic size, dmax / ch any value, destbos unknown or true.
 * Stated: C05 complete; C10 modulo the two contracts: found => the pointer is inside dest[0..dmax),
 * holds (unsigned char)ch, nothing before it holds ch or NUL; not found => no element up to and
 * including the first NUL (or dmax) holds ch; frame (*resultp only). */
#include "verif.h"

const char *g_dest0; size_t g_ssz, g_dmax0, gk, g_nul; int g_has_nul; int g_hcalls; int g_herr;
int g_mcalls, g_lcalls; size_t g_mn, g_len; int g_mc; void *g_mret;
int nondet_int(void); size_t nondet_size_t(void);
void invoke_safe_str_constraint_handler(const char *restrict m, void *restrict p, errno_t e)
{ g_hcalls++; g_herr = e; }

size_t _strnlen_s_chk(const char *str, rsize_t smax, size_t strbos)
{
    __CPROVER_precondition(str == g_dest0 && smax == g_dmax0, "strnlen_s source region readable: handed something other than the declared extent (dest, dmax)");
    (void)strbos; g_lcalls++;
    size_t len = nondet_size_t();
    __CPROVER_assume(len <= smax && (g_has_nul ==> len <= g_nul));
    __CPROVER_assume(len < smax ==> (len < g_ssz && str[len * (size_t)(len < g_ssz)] == 0));
    __CPROVER_assume((gk < len && gk < g_ssz) ==> str[gk * (size_t)(gk < g_ssz)] != 0);
    g_len = len;
    return len;
}
void *memchr(const void *s, int c, size_t n)
{
    __CPROVER_precondition(__CPROVER_r_ok(s, n), "memchr source region readable: libc is handed more than the string and its terminator within dmax");
    const unsigned char *p = s; unsigned char u = (unsigned char)c;
    g_mcalls++; g_mn = n; g_mc = c;
    if (nondet_int()) {
        size_t idx = nondet_size_t();
        __CPROVER_assume(idx < n && p[idx] == u);
        __CPROVER_assume((gk < idx) ==> p[gk * (size_t)(gk < n)] != u);
        g_mret = (void *)(p + idx);
    } else {
        __CPROVER_assume(gk < n ==> p[gk * (size_t)(gk < n)] != u);
        g_mret = NULL;
    }
    return g_mret;
}

#define R __CPROVER_return_value
#define UNK (destbos == BOS_UNKNOWN)
#define VALID (resultp != NULL && dest != NULL && dmax != 0 && (UNK ? dmax <= RSIZE_MAX_STR : dmax <= destbos) && ch <= 255)
#define D(i) dest[(i) * (size_t)((i) < g_ssz)]
#define IDX ((size_t)(*resultp - dest))
static char *g_res;

errno_t _strchr_s_chk(const char *restrict dest, rsize_t dmax, const int ch, char **restrict resultp, const size_t destbos)
__CPROVER_requires(resultp == NULL || resultp == &g_res)
__CPROVER_requires(dest == NULL || (dest == g_dest0 && __CPROVER_r_ok(dest, g_ssz)))
__CPROVER_requires(g_ssz >= 1 && g_hcalls == 0 && g_mcalls == 0 && g_lcalls == 0 && dmax == g_dmax0)
__CPROVER_requires(UNK || destbos == g_ssz)
__CPROVER_requires(g_has_nul ==> (g_nul < g_ssz && (dest == NULL || dest[g_nul * (size_t)(dest != NULL)] == 0)))
__CPROVER_requires((UNK && !g_has_nul) ==> (dmax > RSIZE_MAX_STR || dmax <= g_ssz))
__CPROVER_assigns(g_res, g_hcalls, g_herr, g_mcalls, g_lcalls, g_mn, g_len, g_mc, g_mret)
__CPROVER_ensures((R == EOK || R == ESNOTFND) ? g_hcalls == 0 : (g_hcalls == 1 && g_herr == R)) /* @C05 */
__CPROVER_ensures(VALID <==> (R == EOK || R == ESNOTFND)) /* @C05 */
__CPROVER_ensures(!VALID ==> R == (resultp == NULL || dest == NULL ? ESNULLP : dmax == 0 ? ESZEROL : (UNK ? dmax > RSIZE_MAX_STR : dmax > destbos) ? (dmax > RSIZE_MAX_STR ? ESLEMAX : EOVERFLOW) : ESLEMAX)) /* @C05 */
__CPROVER_ensures(!VALID ==> (g_mcalls == 0 && g_lcalls == 0)) /* @C05 @C02 */
__CPROVER_ensures((!VALID && resultp != NULL) ==> *resultp == NULL) /* @C10 */
__CPROVER_ensures(VALID ==> (g_lcalls == 1 && g_mcalls == 1 && g_mn == (g_len < dmax ? g_len + 1 : g_len) && (unsigned char)g_mc == (unsigned char)ch && (void *)*resultp == g_mret)) /* @C10 */
__CPROVER_ensures(R == EOK ==> (__CPROVER_same_object(*resultp, dest) && IDX < dmax && IDX < g_ssz && IDX <= g_len && D(IDX) == (char)ch)) /* @C10 */
__CPROVER_ensures((R == EOK && gk < IDX) ==> ((unsigned char)D(gk) != (unsigned char)ch && D(gk) != 0)) /* @C10 */
__CPROVER_ensures((R == ESNOTFND && gk < dmax && gk <= g_len) ==> (*resultp == NULL && (unsigned char)D(gk) != (unsigned char)ch)) /* @C10 */
__CPROVER_ensures((VALID && gk < g_len) ==> D(gk) != 0) /* @C10 */
__CPROVER_ensures((VALID && g_len < dmax) ==> D(g_len) == 0) /* @C10 */
;

void harness(void)
{
    size_t nb, dmax, destbos; int dnull, rnull, ch;
    __CPROVER_assume(g_ssz >= 1 && g_ssz <= 2 * RSIZE_MAX_STR + 2);
    nb = g_ssz;
    char *d = malloc(nb);                                  /* exact fit */
    __CPROVER_assume(d != NULL);
    g_dest0 = d; g_dmax0 = dmax; g_hcalls = 0; g_mcalls = 0; g_lcalls = 0;
    errno_t r = _strchr_s_chk(dnull ? NULL : d, dmax, ch, rnull ? NULL : &g_res, destbos);
    /* non-vacuity: each must FAIL */
    CANARY(!(r == EOK && g_res > d + 1), "found behind two elements reachable");
    CANARY(!(r == EOK && ch == 0), "terminator found reachable");
    CANARY(r != ESNOTFND, "not-found reachable");
    CANARY(!(r == ESNOTFND && g_len == dmax), "not-found in an unterminated array reachable");
    CANARY(!(r == EOK && destbos != BOS_UNKNOWN), "known object size reachable");
    CANARY(!(r == EOK && destbos == BOS_UNKNOWN && dmax > g_ssz), "dmax above the object size with a terminated string reachable");
    CANARY(g_hcalls == 0, "constraint violation reachable");
}
