/* Engine A: contracts for the single-loop functions of the shape f(dest, dmax[, value], destbos)
 * enforced on the real bodies, loop contracts laid over the unmodified sources (scan1_*.loops).
 * dest is NULL or points to an exact-fit object of g_ssz characters (symbolic, up to 2*RSIZE_MAX_STR+2):
 * any stray load or store is a pointer obligation; dmax is any 64-bit value; destbos is unknown or
 * the true size.  Truthful caller: with an unknown size the object has dmax elements - or, for the
 * read-only classifiers, at least holds a NUL.
 *   FN 1..7  strisalphanumeric_s strisascii_s strisdigit_s strishex_s strislowercase_s strismixedcase_s strisuppercase_s
 *   FN 10 strzero_s  11 strset_s  12 strtolowercase_s  13 strtouppercase_s  14 strnterminate_s
 *   FN 15 strnset_s
 *   FN 20 strfirstchar_s  21 strlastchar_s   (the returned pointer is the witness: complete C10 statement for the found case)
 * C02 (loads), C01 (stores / frame), C05; C03/C08/C06 clauses where a quantifier-free statement exists.
 * The complete classification result of FN 1..7 ("every character before the terminator is in the class")
 * needs an existential witness and stays with the bounded jobs B.q.*.
 */
#include "verif.h"
#include "ghost_scan.h"

char *g_dest0; size_t g_dmax0, g_ssz, g_nul, gk, gj, g_n0; int g_has_nul, g_writer; char g_old_k, g_old_j;
int g_hcalls; int g_herr;
void invoke_safe_str_constraint_handler(const char *restrict m, void *restrict p, errno_t e)
{ g_hcalls++; g_herr = e; }

#define R __CPROVER_return_value
#define UNK (destbos == BOS_UNKNOWN)
#define VALID (dest != NULL && dmax != 0 && ((UNK && dmax <= RSIZE_MAX_STR) || (!UNK && dmax <= destbos)))
#define AT(i) dest[(i) * (size_t)((i) < g_ssz)]
#define COMMON_REQ \
__CPROVER_requires(dest == NULL || (dest == g_dest0 && __CPROVER_rw_ok(dest, g_ssz))) \
__CPROVER_requires(g_ssz >= 1 && g_hcalls == 0 && dmax == g_dmax0) \
__CPROVER_requires(UNK || destbos == g_ssz) \
__CPROVER_requires(g_has_nul ==> (g_nul < g_ssz && (dest == NULL || dest[g_nul * (size_t)(dest != NULL)] == 0))) \
__CPROVER_requires((UNK && !(g_has_nul && !g_writer)) ==> (dmax > RSIZE_MAX_STR || dmax <= g_ssz)) \
__CPROVER_requires(dest == NULL || ((gk < g_ssz ==> dest[gk * (size_t)(gk < g_ssz)] == g_old_k) && (gj < g_ssz ==> dest[gj * (size_t)(gj < g_ssz)] == g_old_j)))
/* C05: the three argument constraints, each reported once with its code */
#define C05_BOOL \
__CPROVER_ensures(VALID ==> g_hcalls == 0) /* @C05 */ \
__CPROVER_ensures(!VALID ==> (g_hcalls == 1 && R == 0)) /* @C05 */ \
__CPROVER_ensures(!VALID ==> g_herr == (dest == NULL ? ESNULLP : dmax == 0 ? ESZEROL : dmax > RSIZE_MAX_STR ? ESLEMAX : EOVERFLOW)) /* @C05 */
#define C05_ERRNO \
__CPROVER_ensures(R == EOK ? g_hcalls == 0 : (g_hcalls == 1 && g_herr == R)) /* @C05 */ \
__CPROVER_ensures(!VALID ==> R == (dest == NULL ? ESNULLP : dmax == 0 ? ESZEROL : dmax > RSIZE_MAX_STR ? ESLEMAX : EOVERFLOW)) /* @C05 */
#define UNCHANGED_K __CPROVER_ensures((dest != NULL && gk < g_ssz) ==> AT(gk) == g_old_k) /* @C01 */

#if FN >= 1 && FN <= 7
#if FN == 1
#define F _strisalphanumeric_s_chk
#define CLS(c) (((c) >= '0' && (c) <= '9') || ((c) >= 'a' && (c) <= 'z') || ((c) >= 'A' && (c) <= 'Z'))
#elif FN == 2
#define F _strisascii_s_chk
#define CLS(c) ((unsigned char)(c) <= 127)
#elif FN == 3
#define F _strisdigit_s_chk
#define CLS(c) ((c) >= '0' && (c) <= '9')
#elif FN == 4
#define F _strishex_s_chk
#define CLS(c) (((c) >= '0' && (c) <= '9') || ((c) >= 'a' && (c) <= 'f') || ((c) >= 'A' && (c) <= 'F'))
#elif FN == 5
#define F _strislowercase_s_chk
#define CLS(c) ((c) >= 'a' && (c) <= 'z')
#elif FN == 6
#define F _strismixedcase_s_chk
#define CLS(c) (((c) >= 'a' && (c) <= 'z') || ((c) >= 'A' && (c) <= 'Z'))
#elif FN == 7
#define F _strisuppercase_s_chk
#define CLS(c) ((c) >= 'A' && (c) <= 'Z')
#endif
#define WRITER 0
bool F(const char *dest, rsize_t dmax, const size_t destbos)
COMMON_REQ
__CPROVER_assigns(g_hcalls, g_herr)
C05_BOOL
#if FN != 2
__CPROVER_ensures(R ==> (dest[0] != 0 && CLS(dest[0]))) /* @C10 */
__CPROVER_ensures((VALID && dest[0] != 0 && !CLS(dest[0])) ==> !R) /* @C10 */
__CPROVER_ensures((VALID && dest[0] == 0) ==> !R) /* @C10 */
#else
__CPROVER_ensures((VALID && dest[0] == 0) ==> R) /* @C10 */
__CPROVER_ensures((VALID && dest[0] != 0 && !CLS(dest[0])) ==> !R) /* @C10 */
#endif
;
#define CALL(d, m, b) (void)F(d, m, b)

#elif FN == 10
#define WRITER 1
errno_t _strzero_s_chk(char *dest, rsize_t dmax, const size_t destbos)
COMMON_REQ
__CPROVER_assigns(VALID: __CPROVER_object_upto(dest, dmax); g_hcalls, g_herr)
C05_ERRNO
__CPROVER_ensures((R == EOK && gk < dmax) ==> AT(gk) == 0) /* @C08 */
__CPROVER_ensures((R == EOK && gk == 0) ==> AT(gk) == 0) /* @C03 */
__CPROVER_ensures((R != EOK && dest != NULL && gk < g_ssz) ==> AT(gk) == g_old_k) /* @C05 */
;
#define CALL(d, m, b) (void)_strzero_s_chk(d, m, b)

#elif FN == 11
#define WRITER 1
static int g_value;
errno_t _strset_s_chk(char *restrict dest, rsize_t dmax, int value, const size_t destbos)
COMMON_REQ
__CPROVER_assigns(VALID: __CPROVER_object_upto(dest, dmax); g_hcalls, g_herr)
__CPROVER_ensures(R == EOK ? g_hcalls == 0 : (g_hcalls == 1 && g_herr == R)) /* @C05 */
__CPROVER_ensures(!VALID ==> R == (dest == NULL ? ESNULLP : dmax == 0 ? ESZEROL : dmax > RSIZE_MAX_STR ? ESLEMAX : EOVERFLOW)) /* @C05 */
__CPROVER_ensures((VALID && (unsigned)value > 255) ==> R == ESLEMAX) /* @C05 */
__CPROVER_ensures((R == EOK && gk < dmax) ==> (AT(gk) == (char)value || AT(gk) == 0)) /* @C06 */
__CPROVER_ensures((R == EOK && gk < dmax && gj + 1 == gk && AT(gj) == 0) ==> AT(gk) == 0) /* @C08 */
__CPROVER_ensures((R == EOK && gk < dmax && g_old_k == 0) ==> AT(gk) == 0) /* @C03 */
__CPROVER_ensures((R != EOK && dest != NULL && gk < g_ssz) ==> AT(gk) == g_old_k) /* @C05 */
;
#define CALL(d, m, b) (void)_strset_s_chk(d, m, g_value, b)

#elif FN == 12 || FN == 13
#define WRITER 1
#if FN == 12
#define F _strtolowercase_s_chk
#define CONV(c) (((c) >= 'A' && (c) <= 'Z') ? (char)((c) + 32) : (c))
#else
#define F _strtouppercase_s_chk
#define CONV(c) (((c) >= 'a' && (c) <= 'z') ? (char)((c) - 32) : (c))
#endif
errno_t F(char *restrict dest, rsize_t dmax, const size_t destbos)
COMMON_REQ
__CPROVER_assigns(VALID: __CPROVER_object_upto(dest, dmax); g_hcalls, g_herr)
C05_ERRNO
__CPROVER_ensures((dest != NULL && gk < g_ssz) ==> (AT(gk) == g_old_k || (R == EOK && gk < dmax && AT(gk) == CONV(g_old_k)))) /* @C06 */
__CPROVER_ensures((R == EOK && gk == 0) ==> AT(gk) == CONV(g_old_k)) /* @C06 */
__CPROVER_ensures((dest != NULL && gk < g_ssz && g_old_k == 0) ==> AT(gk) == 0) /* @C03 */
;
#define CALL(d, m, b) (void)F(d, m, b)

#elif FN == 14
#define WRITER 1
rsize_t _strnterminate_s_chk(char *dest, rsize_t dmax, const size_t destbos)
COMMON_REQ
__CPROVER_assigns(VALID: __CPROVER_object_upto(dest, dmax); g_hcalls, g_herr)
__CPROVER_ensures(VALID ==> g_hcalls == 0) /* @C05 */
__CPROVER_ensures(!VALID ==> (g_hcalls == 1 && R == 0)) /* @C05 */
__CPROVER_ensures(!VALID ==> g_herr == (dest == NULL ? ESNULLP : dmax == 0 ? ESZEROL : UNK ? ESLEMAX : EOVERFLOW)) /* @C05 */
__CPROVER_ensures(VALID ==> (R < dmax && AT(R) == 0)) /* @C03 */
__CPROVER_ensures((VALID && gk < R) ==> (g_old_k != 0 && AT(gk) == g_old_k)) /* @C06 */
__CPROVER_ensures((VALID && gk == R && R + 1 < dmax) ==> g_old_k == 0) /* @C06 */
__CPROVER_ensures((dest != NULL && gk < g_ssz && !(VALID && gk == R)) ==> AT(gk) == g_old_k) /* @C01 */
;
#define CALL(d, m, b) (void)_strnterminate_s_chk(d, m, b)
#elif FN == 15
#define WRITER 1
static int g_value;
errno_t _strnset_s_chk(char *restrict dest, rsize_t dmax, int value, rsize_t n, const size_t destbos)
COMMON_REQ
__CPROVER_requires(n == g_n0)
__CPROVER_assigns(VALID: __CPROVER_object_upto(dest, dmax); g_hcalls, g_herr)
__CPROVER_ensures(R == EOK ? g_hcalls == 0 : (g_hcalls == 1 && g_herr == R)) /* @C05 */
__CPROVER_ensures(!VALID ==> R == (dest == NULL ? ESNULLP : dmax == 0 ? ESZEROL : dmax > RSIZE_MAX_STR ? ESLEMAX : EOVERFLOW)) /* @C05 */
__CPROVER_ensures((VALID && (unsigned)value > 255) ==> R == ESLEMAX) /* @C05 */
__CPROVER_ensures((VALID && (unsigned)value <= 255) ==> R == (n > dmax ? ESNOSPC : EOK)) /* @C05 */
__CPROVER_ensures((R == EOK && gk < dmax && gk < n) ==> (AT(gk) == (char)value || AT(gk) == 0)) /* @C06 */
__CPROVER_ensures((R == EOK && gk < dmax && gk >= n) ==> (AT(gk) == g_old_k || AT(gk) == 0)) /* @C06 */
__CPROVER_ensures((R == EOK && gk < dmax && g_old_k == 0) ==> AT(gk) == 0) /* @C03 */
__CPROVER_ensures((R != EOK && dest != NULL && gk < g_ssz) ==> AT(gk) == g_old_k) /* @C05 */
;
#define CALL(d, m, b) (void)_strnset_s_chk(d, m, g_value, g_n0, b)

#elif FN == 20 || FN == 21
#define WRITER 0
static char g_c; static char *g_res;
#if FN == 20
#define F _strfirstchar_s_chk
#else
#define F _strlastchar_s_chk
#endif
#define IDX ((size_t)(*firstp - dest))
errno_t F(char *dest, rsize_t dmax, char c, char **firstp, const size_t destbos)
COMMON_REQ
__CPROVER_requires(firstp == &g_res)
__CPROVER_assigns(g_res, g_hcalls, g_herr)
__CPROVER_ensures((R == EOK || R == ESNOTFND) ? g_hcalls == 0 : (g_hcalls == 1 && g_herr == R)) /* @C05 */
__CPROVER_ensures(!VALID ==> R == (dest == NULL ? ESNULLP : dmax == 0 ? ESZEROL : dmax > RSIZE_MAX_STR ? ESLEMAX : EOVERFLOW)) /* @C05 */
__CPROVER_ensures(VALID ==> (R == EOK || R == ESNOTFND)) /* @C05 */
__CPROVER_ensures(R != EOK ==> *firstp == NULL) /* @C10 */
__CPROVER_ensures(R == EOK ==> (__CPROVER_same_object(*firstp, dest) && IDX < dmax && IDX < g_ssz && AT(IDX) == c)) /* @C10 */
#if FN == 20
__CPROVER_ensures((R == EOK && gk < IDX) ==> (AT(gk) != c && AT(gk) != 0)) /* @C10 */
#else
__CPROVER_ensures((R == EOK && gk < IDX) ==> AT(gk) != 0) /* @C10 */
#endif
__CPROVER_ensures((R == ESNOTFND && gk == 0) ==> AT(gk) != c || c == 0) /* @C10 */
;
#define CALL(d, m, b) (void)F(d, m, g_c, &g_res, b)
#endif

void harness(void)
{
    size_t nb, dmax, destbos; int isnull;
    __CPROVER_assume(g_ssz >= 1 && g_ssz <= 2 * RSIZE_MAX_STR + 2);
    nb = g_ssz;
    char *d = malloc(nb);                                  /* exact fit */
    __CPROVER_assume(d != NULL);
    g_dest0 = d; g_dmax0 = dmax; g_hcalls = 0; g_writer = WRITER;
    if (gk < g_ssz) g_old_k = d[gk];
    if (gj < g_ssz) g_old_j = d[gj];
    int had_nul = g_has_nul && g_nul < g_ssz && d[g_nul] == 0;
    CALL(isnull ? NULL : d, dmax, destbos);
    /* non-vacuity: each must FAIL */
    CANARY(g_hcalls == 0, "constraint violation reachable");
    CANARY(!(g_hcalls == 0 && !isnull && dmax > 2 && destbos == BOS_UNKNOWN), "valid call, unknown object size, reachable");
    CANARY(!(g_hcalls == 0 && !isnull && dmax > 2 && destbos != BOS_UNKNOWN), "valid call, known object size, reachable");
    CANARY(!(g_hcalls == 0 && !isnull && dmax > 2 && !had_nul && d[0] != 0 && d[1] != 0), "unterminated string reachable");
}
