/* Engine A: contracts for the span functions (two NESTED scan loops)
 *   FN 1 strspn_s   2 strcspn_s   3 strpbrk_s (returns the pointer: complete witness on the dest side)
 * enforced on the real bodies (loop contracts: span2_*.loops).  dest and src are two separate
 * exact-fit objects of symbolic size, dmax / slen any 64-bit value, destbos / srcbos unknown or
 * the true size.  Truthful caller: dest has dmax elements or holds a NUL; src has slen elements
 * or holds a NUL.
 * Stated: C02 (every load of both loops, every length), C05 complete (success exactly when no
 * size constraint is violated, handler once with the returned code otherwise), C01 / "operands
 * unmodified" (assigns: only *countp and the handler ghosts), and for C10 the part of the answer
 * that has a witness: the count is inside dmax and the object, every element before it is
 * non-NUL, the count is 0 on failure; against the FIRST element of src: strspn_s stops only at an
 * element different from it, strcspn_s counts no element equal to it.  Membership in the rest of
 * src needs the position inside src as a witness: bounded jobs B.q.strspn_s / B.q.strcspn_s. */
#include "verif.h"
#include "ghost_scan2.h"

const char *g_dest0, *g_src0; size_t g_dmax0, g_ssz, g_ssz2, gk; int g_hcalls; int g_herr;
size_t g_nul, g_nul2; int g_has_nul, g_has_nul2;
void invoke_safe_str_constraint_handler(const char *restrict m, void *restrict p, errno_t e)
{ g_hcalls++; g_herr = e; }
void invoke_safe_mem_constraint_handler(const char *restrict m, void *restrict p, errno_t e)
{ g_hcalls++; g_herr = e; }

#define R __CPROVER_return_value
#define UNK (destbos == BOS_UNKNOWN)
#define SUNK (srcbos == BOS_UNKNOWN)
#define DVALID (dest != NULL && src != NULL && dmax != 0 && ((UNK && dmax <= RSIZE_MAX_STR) || (!UNK && dmax <= destbos)))
#if FN == 1
#define F _strspn_s_chk
#define SVALID (slen != 0 && (SUNK ? slen <= RSIZE_MAX_STR : slen <= srcbos))
#elif FN == 2
#define F _strcspn_s_chk
#define SVALID (slen != 0 && slen <= RSIZE_MAX_STR && (SUNK || slen <= srcbos))
#else
#define F _strpbrk_s_chk
#define SVALID (slen != 0 && (SUNK ? slen <= RSIZE_MAX_STR : slen <= srcbos))
#endif
#define D(i) dest[(i) * (size_t)((i) < g_ssz)]
#define S(i) src[(i) * (size_t)((i) < g_ssz2)]
static rsize_t g_cnt;

#if FN == 3
static char *g_first;
#define IDX ((size_t)(*firstp - dest))
errno_t F(char *dest, rsize_t dmax, char *src, rsize_t slen, char **firstp, const size_t destbos, const size_t srcbos)
__CPROVER_requires(firstp == &g_first)
#else
errno_t F(const char *dest, rsize_t dmax, const char *src, rsize_t slen, rsize_t *countp, const size_t destbos, const size_t srcbos)
__CPROVER_requires(countp == &g_cnt)
#endif
__CPROVER_requires(dest == NULL || (dest == g_dest0 && __CPROVER_r_ok(dest, g_ssz)))
__CPROVER_requires(src == NULL || (src == g_src0 && __CPROVER_r_ok(src, g_ssz2)))
__CPROVER_requires(g_ssz >= 1 && g_ssz2 >= 1 && g_hcalls == 0 && dmax == g_dmax0)
__CPROVER_requires(UNK || destbos == g_ssz)
__CPROVER_requires(SUNK || srcbos == g_ssz2)
__CPROVER_requires(g_has_nul ==> (g_nul < g_ssz && (dest == NULL || dest[g_nul * (size_t)(dest != NULL)] == 0)))
__CPROVER_requires(g_has_nul2 ==> (g_nul2 < g_ssz2 && (src == NULL || src[g_nul2 * (size_t)(src != NULL)] == 0)))
__CPROVER_requires((UNK && !g_has_nul) ==> (dmax > RSIZE_MAX_STR || dmax <= g_ssz))
__CPROVER_requires((SUNK && !g_has_nul2) ==> (slen > RSIZE_MAX_STR || slen <= g_ssz2))
#if FN == 3
__CPROVER_assigns(g_first, g_hcalls, g_herr)
__CPROVER_ensures((R == EOK || R == ESNOTFND) ? g_hcalls == 0 : (g_hcalls == 1 && g_herr == R)) /* @C05 */
__CPROVER_ensures((DVALID && SVALID) <==> (R == EOK || R == ESNOTFND)) /* @C05 */
__CPROVER_ensures(!DVALID ==> R == ((dest == NULL || src == NULL) ? ESNULLP : dmax == 0 ? ESZEROL : dmax > RSIZE_MAX_STR ? ESLEMAX : EOVERFLOW)) /* @C05 */
__CPROVER_ensures(R != EOK ==> *firstp == NULL) /* @C10 */
__CPROVER_ensures(R == EOK ==> (__CPROVER_same_object(*firstp, dest) && IDX < dmax && IDX < g_ssz && D(IDX) != 0)) /* @C10 */
__CPROVER_ensures((R == EOK && gk < IDX) ==> D(gk) != 0) /* @C10 */
__CPROVER_ensures((R == EOK && gk < IDX && S(0) != 0) ==> D(gk) != S(0)) /* @C10 */
__CPROVER_ensures((R == ESNOTFND && D(0) != 0 && S(0) != 0) ==> D(0) != S(0)) /* @C10 */
__CPROVER_ensures((DVALID && SVALID && D(0) != 0 && D(0) == S(0)) ==> (R == EOK && IDX == 0)) /* @C10 */
#else
__CPROVER_assigns(g_cnt, g_hcalls, g_herr)
__CPROVER_ensures(R == EOK ? g_hcalls == 0 : (g_hcalls == 1 && g_herr == R)) /* @C05 */
__CPROVER_ensures((DVALID && SVALID) <==> (R == EOK)) /* @C05 */
__CPROVER_ensures(!DVALID ==> R == ((dest == NULL || src == NULL) ? ESNULLP : dmax == 0 ? ESZEROL : dmax > RSIZE_MAX_STR ? ESLEMAX : EOVERFLOW)) /* @C05 */
__CPROVER_ensures(R != EOK ==> *countp == 0) /* @C10 */
__CPROVER_ensures(R == EOK ==> (*countp <= dmax && *countp <= g_ssz)) /* @C10 */
__CPROVER_ensures((R == EOK && gk < *countp) ==> D(gk) != 0) /* @C10 */
#if FN == 1
__CPROVER_ensures((R == EOK && *countp < dmax && *countp < g_ssz && D(*countp) != 0 && S(0) != 0) ==> D(*countp) != S(0)) /* @C10 */
__CPROVER_ensures((R == EOK && D(0) != 0 && D(0) == S(0)) ==> *countp >= 1) /* @C10 */
#else
__CPROVER_ensures((R == EOK && gk < *countp && S(0) != 0) ==> D(gk) != S(0)) /* @C10 */
__CPROVER_ensures((R == EOK && D(0) != 0 && D(0) == S(0)) ==> *countp == 0) /* @C10 */
#endif
#endif
;

void harness(void)
{
    size_t nb, nb2, dmax, slen, destbos, srcbos; int dnull, snull;
    __CPROVER_assume(g_ssz >= 1 && g_ssz <= 2 * RSIZE_MAX_STR + 2 && g_ssz2 >= 1 && g_ssz2 <= 2 * RSIZE_MAX_STR + 2);
    nb = g_ssz; nb2 = g_ssz2;
    char *d = malloc(nb), *s = malloc(nb2);               /* exact fit, separate objects */
    __CPROVER_assume(d != NULL && s != NULL);
    g_dest0 = d; g_src0 = s; g_dmax0 = dmax; g_hcalls = 0;
#if FN == 3
    errno_t r = F(dnull ? NULL : d, dmax, snull ? NULL : s, slen, &g_first, destbos, srcbos);
    size_t g_cnt = (r == EOK) ? (size_t)(g_first - d) : 0;
    CANARY(r != ESNOTFND, "not-found reachable");
#else
    errno_t r = F(dnull ? NULL : d, dmax, snull ? NULL : s, slen, &g_cnt, destbos, srcbos);
#endif
    /* non-vacuity: each must FAIL */
    CANARY(!(r == EOK && g_cnt > 1), "count above one reachable");
    CANARY(!(r == EOK && g_cnt == 0), "count zero reachable");
    CANARY(!(r == EOK && destbos != BOS_UNKNOWN && srcbos != BOS_UNKNOWN), "known object sizes reachable");
    CANARY(!(r == EOK && destbos == BOS_UNKNOWN && dmax > g_ssz), "dmax above the object size with a terminated string reachable");
    CANARY(!(r == EOK && srcbos == BOS_UNKNOWN && slen > g_ssz2), "slen above the object size with a terminated set reachable");
    CANARY(g_hcalls == 0, "constraint violation reachable");
}
