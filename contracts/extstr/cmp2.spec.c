/* Engine A: contracts for the two-operand comparisons that return a difference / a status
 *   FN 1 strcmp_s  2 strcasecmp_s  3 strcmpfld_s  4 strprefix_s
 * enforced on the real bodies (loop contracts: cmp2_*.loops).  dest and src are two separate
 * exact-fit objects of symbolic size (any stray load is a pointer obligation), dmax any 64-bit
 * value, destbos (and srcbos of strcmp_s) unknown or the true size.  Truthful caller:
 *   strcmp_s/strcasecmp_s/strprefix_s: dest has dmax elements or holds a NUL; src (no length
 *     argument) holds a NUL, or dest ends first, or src is as long as what dest allows, or
 *     (strcmp_s) its object size is known to the library;
 *   strcmpfld_s: both fields have dmax elements.
 * What is stated (quantifier-free):
 *   C05 complete; C02 (loads of both operands, every length); C01 / C10 "operands unmodified"
 *   (assigns clause: only *resultp and the handler ghosts);
 *   C10: strcmpfld_s: result 0 => the fields agree at an ARBITRARY index gk < dmax (complete for
 *        "equal"); all four: the answer at index 0 (difference of the first elements as unsigned
 *        char / upper-cased, prefix status), value range, result 0 on every failure.
 *   The position of the first difference / first NUL is an existential witness these functions
 *   do not return: the answer behind index 0 stays with the bounded jobs B.q.<fn>. */
#include "verif.h"
#include "ghost_scan2.h"

const char *g_dest0, *g_src0; size_t g_dmax0, g_ssz, g_ssz2, gk; int g_hcalls; int g_herr;
size_t g_nul, g_nul2; int g_has_nul, g_has_nul2;
void invoke_safe_str_constraint_handler(const char *restrict m, void *restrict p, errno_t e)
{ g_hcalls++; g_herr = e; }

#define R __CPROVER_return_value
#define UNK (destbos == BOS_UNKNOWN)
#define VALID (dest != NULL && src != NULL && dmax != 0 && ((UNK && dmax <= RSIZE_MAX_STR) || (!UNK && dmax <= destbos)))
#define D(i) dest[(i) * (size_t)((i) < g_ssz)]
#define S(i) src[(i) * (size_t)((i) < g_ssz2)]
#define UC(c) ((int)(unsigned char)(c))
#define UP(c) ((UC(c) >= 'a' && UC(c) <= 'z') ? UC(c) - ('a' - 'A') : UC(c))
static int g_res;

#define REQ_COMMON \
__CPROVER_requires(dest == NULL || (dest == g_dest0 && __CPROVER_r_ok(dest, g_ssz))) \
__CPROVER_requires(src == NULL || (src == g_src0 && __CPROVER_r_ok(src, g_ssz2))) \
__CPROVER_requires(g_ssz >= 1 && g_ssz2 >= 1 && g_hcalls == 0 && dmax == g_dmax0) \
__CPROVER_requires(UNK || destbos == g_ssz)
#define REQ_STRINGS(SRCKNOWN) \
__CPROVER_requires(g_has_nul ==> (g_nul < g_ssz && (dest == NULL || dest[g_nul * (size_t)(dest != NULL)] == 0))) \
__CPROVER_requires(g_has_nul2 ==> (g_nul2 < g_ssz2 && (src == NULL || src[g_nul2 * (size_t)(src != NULL)] == 0))) \
__CPROVER_requires((UNK && !g_has_nul) ==> (dmax > RSIZE_MAX_STR || dmax <= g_ssz)) \
__CPROVER_requires(!g_has_nul2 ==> ((g_has_nul && g_nul < g_ssz2) || (dmax <= RSIZE_MAX_STR && dmax <= g_ssz2) || (!UNK && g_ssz <= g_ssz2) || (SRCKNOWN)))
#define ENS_CODES(OKSET) \
__CPROVER_ensures((OKSET) ? g_hcalls == 0 : (g_hcalls == 1 && g_herr == R)) /* @C05 */ \
__CPROVER_ensures(!VALID ==> R == ((dest == NULL || src == NULL) ? ESNULLP : dmax == 0 ? ESZEROL : dmax > RSIZE_MAX_STR ? ESLEMAX : EOVERFLOW)) /* @C05 */

#if FN == 1
#define F _strcmp_s_chk
errno_t F(const char *dest, rsize_t dmax, const char *src, int *resultp, const size_t destbos, size_t srcbos)
__CPROVER_requires(resultp == &g_res)
REQ_COMMON
__CPROVER_requires(srcbos == BOS_UNKNOWN || srcbos == g_ssz2)
REQ_STRINGS(srcbos != BOS_UNKNOWN)
__CPROVER_assigns(g_res, g_hcalls, g_herr)
ENS_CODES(R == EOK)
__CPROVER_ensures(VALID ==> (R == EOK || R == ESUNTERM)) /* @C05 */
__CPROVER_ensures(R == ESUNTERM ==> (srcbos != BOS_UNKNOWN && !g_has_nul2)) /* @C05 */
__CPROVER_ensures(R != EOK ==> *resultp == 0) /* @C10 */
__CPROVER_ensures(R == EOK ==> (*resultp >= -255 && *resultp <= 255)) /* @C10 */
__CPROVER_ensures((R == EOK && D(0) != S(0)) ==> *resultp == UC(D(0)) - UC(S(0))) /* @C10 */
__CPROVER_ensures((R == EOK && *resultp == 0) ==> D(0) == S(0)) /* @C10 */
__CPROVER_ensures((R == EOK && D(0) == S(0) && (D(0) == 0 || dmax == 1)) ==> *resultp == 0) /* @C10 */
;
#define CALL(d, s) F(d, dmax, s, &g_res, destbos, srcbos)
#define OKRET (r == EOK)
#elif FN == 2
#define F _strcasecmp_s_chk
errno_t F(const char *dest, rsize_t dmax, const char *src, int *resultp, const size_t destbos)
__CPROVER_requires(resultp == &g_res)
REQ_COMMON
REQ_STRINGS(0)
__CPROVER_assigns(g_res, g_hcalls, g_herr)
ENS_CODES(R == EOK)
__CPROVER_ensures(VALID ==> R == EOK) /* @C05 */
__CPROVER_ensures(R != EOK ==> *resultp == 0) /* @C10 */
__CPROVER_ensures(R == EOK ==> (*resultp >= -255 && *resultp <= 255)) /* @C10 */
__CPROVER_ensures((R == EOK && UP(D(0)) != UP(S(0))) ==> *resultp == UP(D(0)) - UP(S(0))) /* @C10 */
__CPROVER_ensures((R == EOK && *resultp == 0) ==> UP(D(0)) == UP(S(0))) /* @C10 */
__CPROVER_ensures((R == EOK && UP(D(0)) == UP(S(0)) && (D(0) == 0 || dmax == 1)) ==> *resultp == 0) /* @C10 */
;
#define CALL(d, s) F(d, dmax, s, &g_res, destbos)
#define OKRET (r == EOK)
#elif FN == 3
#define F _strcmpfld_s_chk
errno_t F(const char *dest, rsize_t dmax, const char *src, int *resultp, const size_t destbos)
__CPROVER_requires(resultp == &g_res)
REQ_COMMON
/* fields: both operands have dmax elements whenever the sizes pass the library's own checks */
__CPROVER_requires(UNK ==> (dmax > RSIZE_MAX_STR || dmax <= g_ssz))
__CPROVER_requires((UNK ? dmax <= RSIZE_MAX_STR : dmax <= g_ssz) ==> dmax <= g_ssz2)
__CPROVER_assigns(g_res, g_hcalls, g_herr)
ENS_CODES(R == EOK)
__CPROVER_ensures(VALID ==> R == EOK) /* @C05 */
__CPROVER_ensures(R != EOK ==> *resultp == 0) /* @C10 */
__CPROVER_ensures(R == EOK ==> (*resultp >= -255 && *resultp <= 255)) /* @C10 */
__CPROVER_ensures((R == EOK && *resultp == 0 && gk < dmax) ==> D(gk) == S(gk)) /* @C10 */
__CPROVER_ensures((R == EOK && D(0) != S(0)) ==> *resultp == UC(D(0)) - UC(S(0))) /* @C10 */
__CPROVER_ensures((R == EOK && D(0) == S(0) && dmax == 1) ==> *resultp == 0) /* @C10 */
;
#define CALL(d, s) F(d, dmax, s, &g_res, destbos)
#define OKRET (r == EOK)
#else
#define F _strprefix_s_chk
errno_t F(const char *dest, rsize_t dmax, const char *src, const size_t destbos)
REQ_COMMON
REQ_STRINGS(0)
__CPROVER_assigns(g_hcalls, g_herr)
ENS_CODES(R == EOK || R == ESNOTFND)
__CPROVER_ensures(VALID ==> (R == EOK || R == ESNOTFND)) /* @C05 */
__CPROVER_ensures(R == EOK ==> (S(0) != 0 && D(0) == S(0))) /* @C10 */
__CPROVER_ensures((VALID && (S(0) == 0 || D(0) != S(0))) ==> R == ESNOTFND) /* @C10 */
__CPROVER_ensures((VALID && S(0) != 0 && D(0) == S(0) && dmax == 1) ==> R == EOK) /* @C10 */
;
#define CALL(d, s) F(d, dmax, s, destbos)
#define OKRET (r == EOK)
#endif

void harness(void)
{
    size_t nb, nb2, dmax, destbos, srcbos; int dnull, snull;
    __CPROVER_assume(g_ssz >= 1 && g_ssz <= 2 * RSIZE_MAX_STR + 2 && g_ssz2 >= 1 && g_ssz2 <= 2 * RSIZE_MAX_STR + 2);
    nb = g_ssz; nb2 = g_ssz2;
    char *d = malloc(nb), *s = malloc(nb2);               /* exact fit, separate objects */
    __CPROVER_assume(d != NULL && s != NULL);
    g_dest0 = d; g_src0 = s; g_dmax0 = dmax; g_hcalls = 0;
    errno_t r = CALL(dnull ? NULL : d, snull ? NULL : s);
    /* non-vacuity: each must FAIL */
    CANARY(!(OKRET && dmax > 2 && g_ssz > 2 && g_ssz2 > 2 && d[0] == s[0] && d[1] == s[1] && d[0] != 0 && d[1] != 0), "success behind at least two equal elements reachable");
    CANARY(!(OKRET && destbos != BOS_UNKNOWN), "known object size reachable");
#if FN != 3
    CANARY(!(OKRET && destbos == BOS_UNKNOWN && dmax > g_ssz), "dmax above the object size with a terminated string reachable");
#endif
#if FN == 1
    CANARY(r != ESUNTERM, "unterminated source of known size reachable");
#endif
#if FN == 4
    CANARY(r != ESNOTFND, "not-a-prefix reachable");
#else
    CANARY(!(OKRET && g_res != 0), "non-zero difference reachable");
    CANARY(!(OKRET && g_res == 0), "zero difference reachable");
#endif
    CANARY(g_hcalls == 0, "constraint violation reachable");
}
