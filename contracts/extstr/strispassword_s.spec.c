/* Engine A: contract for strispassword_s, enforced on the real body (loop contract:
 * strispassword_s.loops).  The bounded job B.q.strispassword_s cannot reach the scan loop at all
 * (its operands have at most 5 elements, the function demands dmax >= 6): this job is the only one
 * that does.  dest is an exact-fit object of symbolic size, dmax any 64-bit value, destbos unknown
 * or the true size; truthful caller: dest has dmax elements or holds a NUL.
 * Stated: C02 (every load inside the object for every length - an unterminated array that exactly
 * fills dmax is looked at for dmax elements only), C05 (true => no handler; a violated size
 * constraint => false and the handler once; a terminated string never raises ESUNTERM), frame
 * (nothing but the handler ghosts), C10 at index 0 (true => the first character is a printable
 * non-space ASCII character; an empty string => false). */
#include "verif.h"
#include "ghost_scan2.h"

const char *g_dest0, *g_src0; size_t g_dmax0, g_ssz, g_ssz2, gk; int g_hcalls; int g_herr;
size_t g_nul, g_nul2; int g_has_nul, g_has_nul2;
void invoke_safe_str_constraint_handler(const char *restrict m, void *restrict p, errno_t e)
{ g_hcalls++; g_herr = e; }

#define R __CPROVER_return_value
#define UNK (destbos == BOS_UNKNOWN)
#define PVALID (dest != NULL && dmax != 0 && (UNK ? dmax <= SAFE_STR_PASSWORD_MAX_LENGTH : dmax <= destbos) && dmax >= SAFE_STR_PASSWORD_MIN_LENGTH)
#define D(i) dest[(i) * (size_t)((i) < g_ssz)]

bool _strispassword_s_chk(const char *dest, rsize_t dmax, const size_t destbos)
__CPROVER_requires(dest == NULL || (dest == g_dest0 && __CPROVER_r_ok(dest, g_ssz)))
__CPROVER_requires(g_ssz >= 1 && g_hcalls == 0 && dmax == g_dmax0)
__CPROVER_requires(UNK || destbos == g_ssz)
__CPROVER_requires(g_has_nul ==> (g_nul < g_ssz && (dest == NULL || dest[g_nul * (size_t)(dest != NULL)] == 0)))
__CPROVER_requires((UNK && !g_has_nul) ==> (dmax > SAFE_STR_PASSWORD_MAX_LENGTH || dmax <= g_ssz))
__CPROVER_assigns(g_hcalls, g_herr)
__CPROVER_ensures(R ==> g_hcalls == 0) /* @C05 */
__CPROVER_ensures(!PVALID ==> (!R && g_hcalls == 1 && g_herr == (dest == NULL ? ESNULLP : dmax == 0 ? ESZEROL : (UNK ? dmax > SAFE_STR_PASSWORD_MAX_LENGTH : dmax > destbos) ? g_herr : ESLEMIN))) /* @C05 */
__CPROVER_ensures(PVALID ==> (g_hcalls == 0 || (g_hcalls == 1 && g_herr == ESUNTERM && !R))) /* @C05 */
__CPROVER_ensures((PVALID && g_has_nul && g_nul < dmax) ==> g_hcalls == 0) /* @C05 */
__CPROVER_ensures(R ==> (D(0) >= 33 && D(0) <= 126)) /* @C10 */
__CPROVER_ensures((PVALID && D(0) == 0) ==> !R) /* @C10 */
;

void harness(void)
{
    size_t nb, dmax, destbos; int dnull;
    __CPROVER_assume(g_ssz >= 1 && g_ssz <= 4 * SAFE_STR_PASSWORD_MAX_LENGTH);
    nb = g_ssz;
    char *d = malloc(nb);                                  /* exact fit */
    __CPROVER_assume(d != NULL);
    g_dest0 = d; g_dmax0 = dmax; g_hcalls = 0;
    bool r = _strispassword_s_chk(dnull ? NULL : d, dmax, destbos);
    /* non-vacuity: each must FAIL */
    CANARY(!r, "accepted password reachable");
    CANARY(!(r && destbos != BOS_UNKNOWN), "known object size reachable");
    CANARY(!(!r && g_hcalls == 0 && dmax >= 6 && g_ssz >= 6 && d[0] != 0 && d[1] != 0 && d[2] != 0), "rejected without a violation behind three characters reachable");
    CANARY(!(g_hcalls == 1 && g_herr == ESUNTERM), "unterminated array reachable");
    CANARY(!(r && destbos == BOS_UNKNOWN && dmax > g_ssz), "dmax above the object size with a terminated string reachable");
    CANARY(g_hcalls == 0, "constraint violation reachable");
}
