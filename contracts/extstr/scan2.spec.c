/* Engine A: contracts for the index-returning two-operand comparisons
 *   FN 1 strfirstdiff_s  2 strfirstsame_s  3 strlastdiff_s  4 strlastsame_s
 * enforced on the real bodies (loop contracts: scan2_*.loops).  dest and src are two separate
 * exact-fit objects of symbolic size (any stray load is a pointer obligation), dmax any 64-bit
 * value, destbos unknown or the true size.  Truthful caller: dest has dmax elements or holds a NUL;
 * src (which has no length argument) holds a NUL or is at least as long as dest's dmax.
 * The returned index is the witness, so the found case is stated completely (C10):
 *   first*: the operands differ / agree at the index, and agree / differ (both non-NUL) before it;
 *   last*:  the operands differ / agree at the index, both non-NUL up to it.
 * C02 (loads), C05, C01 (only *resultp is assigned). */
#include "verif.h"
#include "ghost_scan2.h"

const char *g_dest0, *g_src0; size_t g_dmax0, g_ssz, g_ssz2, gk; int g_hcalls; int g_herr;
size_t g_nul, g_nul2; int g_has_nul, g_has_nul2;
void invoke_safe_str_constraint_handler(const char *restrict m, void *restrict p, errno_t e)
{ g_hcalls++; g_herr = e; }

#define R __CPROVER_return_value
#define UNK (destbos == BOS_UNKNOWN)
#define VALID (dest != NULL && src != NULL && dmax != 0 && ((UNK && dmax <= RSIZE_MAX_STR) || (!UNK && dmax <= destbos)))
#define D(i) dest[(i) * (size_t)((i) < g_ssz)]
#define S(i) src[(i) * (size_t)((i) < g_ssz2)]
#if FN == 1
#define F _strfirstdiff_s_chk
#define NOTFOUND ESNODIFF
#define HIT(i) (D(i) != S(i))
#elif FN == 2
#define F _strfirstsame_s_chk
#define NOTFOUND ESNOTFND
#define HIT(i) (D(i) == S(i))
#elif FN == 3
#define F _strlastdiff_s_chk
#define NOTFOUND ESNODIFF
#define HIT(i) (D(i) != S(i))
#else
#define F _strlastsame_s_chk
#define NOTFOUND ESNOTFND
#define HIT(i) (D(i) == S(i))
#endif
static rsize_t g_res;

errno_t F(const char *dest, rsize_t dmax, const char *src, rsize_t *resultp, const size_t destbos)
__CPROVER_requires(resultp == &g_res)
__CPROVER_requires(dest == NULL || (dest == g_dest0 && __CPROVER_r_ok(dest, g_ssz)))
__CPROVER_requires(src == NULL || (src == g_src0 && __CPROVER_r_ok(src, g_ssz2)))
__CPROVER_requires(g_ssz >= 1 && g_ssz2 >= 1 && g_hcalls == 0 && dmax == g_dmax0)
__CPROVER_requires(UNK || destbos == g_ssz)
__CPROVER_requires(g_has_nul ==> (g_nul < g_ssz && (dest == NULL || dest[g_nul * (size_t)(dest != NULL)] == 0)))
__CPROVER_requires(g_has_nul2 ==> (g_nul2 < g_ssz2 && (src == NULL || src[g_nul2 * (size_t)(src != NULL)] == 0)))
__CPROVER_requires((UNK && !g_has_nul) ==> (dmax > RSIZE_MAX_STR || dmax <= g_ssz))
/* src is read as far as dest goes: it ends first, or is as long as what dest allows */
__CPROVER_requires(!g_has_nul2 ==> ((g_has_nul && g_nul < g_ssz2) || (dmax <= RSIZE_MAX_STR && dmax <= g_ssz2) || (!UNK && g_ssz <= g_ssz2)))
__CPROVER_assigns(g_res, g_hcalls, g_herr)
__CPROVER_ensures((R == EOK || R == NOTFOUND) ? g_hcalls == 0 : (g_hcalls == 1 && g_herr == R)) /* @C05 */
__CPROVER_ensures(!VALID ==> R == ((dest == NULL || src == NULL) ? ESNULLP : dmax == 0 ? ESZEROL : dmax > RSIZE_MAX_STR ? ESLEMAX : EOVERFLOW)) /* @C05 */
__CPROVER_ensures(VALID ==> (R == EOK || R == NOTFOUND)) /* @C05 */
__CPROVER_ensures(R != EOK ==> *resultp == 0) /* @C10 */
__CPROVER_ensures(R == EOK ==> (*resultp < dmax && *resultp < g_ssz && *resultp < g_ssz2 && D(*resultp) != 0 && S(*resultp) != 0 && HIT(*resultp))) /* @C10 */
__CPROVER_ensures((R == EOK && gk < *resultp) ==> (D(gk) != 0 && S(gk) != 0)) /* @C10 */
#if FN <= 2
__CPROVER_ensures((R == EOK && gk < *resultp) ==> !HIT(gk)) /* @C10 */
#endif
__CPROVER_ensures((R == NOTFOUND && gk == 0 && D(gk) != 0 && S(gk) != 0) ==> !HIT(gk)) /* @C10 */
;

void harness(void)
{
    size_t nb, nb2, dmax, destbos; int dnull, snull;
    __CPROVER_assume(g_ssz >= 1 && g_ssz <= 2 * RSIZE_MAX_STR + 2 && g_ssz2 >= 1 && g_ssz2 <= 2 * RSIZE_MAX_STR + 2);
    nb = g_ssz; nb2 = g_ssz2;
    char *d = malloc(nb), *s = malloc(nb2);               /* exact fit, separate objects */
    __CPROVER_assume(d != NULL && s != NULL);
    g_dest0 = d; g_src0 = s; g_dmax0 = dmax; g_hcalls = 0;
    errno_t r = F(dnull ? NULL : d, dmax, snull ? NULL : s, &g_res, destbos);
    /* non-vacuity: each must FAIL */
    CANARY(!(r == EOK && g_res > 1), "found behind at least two elements reachable");
    CANARY(r != NOTFOUND, "not-found reachable");
    CANARY(!(r == EOK && destbos != BOS_UNKNOWN), "known object size reachable");
    CANARY(!(r == EOK && destbos == BOS_UNKNOWN && dmax > g_ssz), "dmax above the object size with a terminated string reachable");
    CANARY(g_hcalls == 0, "constraint violation reachable");
}
