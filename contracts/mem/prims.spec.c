/* Engine A: the contracts of include/prim_contracts.h (the very text the memory wrappers are
 * verified against) ENFORCED on the real element-wise primitives of src/mem/mem_primitives_lib.c,
 * loop contracts laid over the unmodified source (prims.loops).  Unbounded: len is any uint32_t,
 * dest/src are any element-aligned positions of one arena (every overlap, either order).
 *   -DFN=2 mem_prim_set16  3 mem_prim_set32  5 mem_prim_move8  6 mem_prim_move16  7 mem_prim_move32
 * Quantifier-free: gk / gke is an arbitrary index, g_old the source element there at entry.
 */
#include "verif.h"
#define PRIM_ENFORCE
#include "prim_contracts.h"

size_t gk, gke; uint32_t g_len0, g_old;
unsigned long g_ev, g_last_store, g_last_barrier;
int g_hcalls; errno_t g_herr;

#if FN == 2 || FN == 6
typedef uint16_t EL;
#elif FN == 3 || FN == 7
typedef uint32_t EL;
#else
typedef uint8_t EL;
#endif
#define ES sizeof(EL)
#ifndef ASZ_LOG
#define ASZ_LOG 34
#endif

void harness(void)
{
    size_t asz, doff, soff, nb; uint32_t len; EL value;     /* asz, doff, soff in elements */
    __CPROVER_assume(asz >= 1 && asz <= ((size_t)1 << ASZ_LOG));
    nb = asz * ES;
    EL *arena = malloc(nb);                                /* typed arena: no byte reinterpretation */
    __CPROVER_assume(arena != NULL);
    __CPROVER_assume(doff <= asz && len <= asz - doff);
    __CPROVER_assume(soff <= asz && len <= asz - soff);
    g_len0 = len;
    EL *d = arena + doff; const EL *s = arena + soff;
#if FN >= 5
    __CPROVER_assume(len > 0);
    size_t g = (FN == 5) ? gk : gke;
    g_old = (g < len) ? s[g] : 0;
#endif
#if FN == 2
    mem_prim_set16(d, len, value);
#elif FN == 3
    mem_prim_set32(d, len, value);
#elif FN == 5
    mem_prim_move8(d, s, len);
#elif FN == 6
    mem_prim_move16(d, s, len);
#elif FN == 7
    mem_prim_move32(d, s, len);
#endif
}
