/* Engine C (loop-free, full domain): contracts for the libc-delegating byte searches
 *   FN 1 memchr_s   2 memrchr_s
 * enforced on the real bodies.  libc memchr / memrchr are ASSUMED CONTRACTS (A3), given as ghost
 * bodies below: (requires) the n bytes handed over are readable - checked at the call site, this is
 * the C02 obligation: the wrapper must never hand libc more than the declared extent; (ensures) the
 * result is NULL and no byte of s[0..n) equals c, or points at a byte equal to c with no such byte
 * before (memchr) / behind (memrchr) it - stated through the ghost index gk.
 * dest is an exact-fit object of symbolic size (1 .. 2^20 bytes and beyond RSIZE_MAX_MEM for dmax),
 * dmax / ch any value, destbos unknown or the true size, resultp NULL or valid.
 * Stated on the wrapper: C05 complete (success / not-found exactly when no constraint is violated,
 * handler once with the returned code otherwise, libc not called then), C10 modulo the libc contract
 * (found: pointer inside dest[0..dmax) at a byte equal to (unsigned char)ch, none before / behind it;
 * not found: *resultp NULL and no byte of dest[0..dmax) equals it), frame (*resultp only). */
#include "verif.h"

const unsigned char *g_dest0; size_t g_ssz, gk; int g_hcalls; int g_herr;
int g_mcalls; size_t g_mn; int g_mc; void *g_mret;
int nondet_int(void); size_t nondet_size_t(void);
void invoke_safe_str_constraint_handler(const char *restrict m, void *restrict p, errno_t e)
{ g_hcalls++; g_herr = e; }
void invoke_safe_mem_constraint_handler(const char *restrict m, void *restrict p, errno_t e)
{ g_hcalls++; g_herr = e; }

#if FN == 1
#define F _memchr_s_chk
#define LIBC memchr
#define NONE_BEFORE(idx) (gk < (idx))
#else
#define F _memrchr_s_chk
#define LIBC memrchr
#define NONE_BEFORE(idx) (gk > (idx))
#endif
void *LIBC(const void *s, int c, size_t n)
{
    __CPROVER_precondition(__CPROVER_r_ok(s, n), "memchr source region readable: libc is handed more than the declared extent");
    const unsigned char *p = s; unsigned char u = (unsigned char)c;
    g_mcalls++; g_mn = n; g_mc = c;
    if (nondet_int()) {
        size_t idx = nondet_size_t();
        __CPROVER_assume(idx < n && p[idx] == u);
        __CPROVER_assume((gk < n && NONE_BEFORE(idx)) ==> p[gk * (size_t)(gk < n)] != u);
        g_mret = (void *)(p + idx);
    } else {
        __CPROVER_assume(gk < n ==> p[gk * (size_t)(gk < n)] != u);
        g_mret = NULL;
    }
    return g_mret;
}

#define R __CPROVER_return_value
#define UNK (destbos == BOS_UNKNOWN)
#define VALID (resultp != NULL && dest != NULL && dmax != 0 && (UNK ? dmax <= RSIZE_MAX_MEM : dmax <= destbos) && ch <= 255)
#define DB ((const unsigned char *)dest)
#define D(i) DB[(i) * (size_t)((i) < g_ssz)]
#define IDX ((size_t)((const unsigned char *)*resultp - DB))
static void *g_res;

errno_t F(const void *restrict dest, rsize_t dmax, const int ch, void **resultp, const size_t destbos)
__CPROVER_requires(resultp == NULL || resultp == &g_res)
__CPROVER_requires(dest == NULL || (dest == g_dest0 && __CPROVER_r_ok(dest, g_ssz)))
__CPROVER_requires(g_ssz >= 1 && g_hcalls == 0 && g_mcalls == 0)
__CPROVER_requires(UNK || destbos == g_ssz)
__CPROVER_requires(UNK ==> (dmax > RSIZE_MAX_MEM || dmax <= g_ssz))
__CPROVER_assigns(g_res, g_hcalls, g_herr, g_mcalls, g_mn, g_mc, g_mret)
__CPROVER_ensures((R == EOK || R == ESNOTFND) ? g_hcalls == 0 : (g_hcalls == 1 && g_herr == R)) /* @C05 */
__CPROVER_ensures(VALID <==> (R == EOK || R == ESNOTFND)) /* @C05 */
__CPROVER_ensures(!VALID ==> R == (resultp == NULL || dest == NULL ? ESNULLP : dmax == 0 ? ESZEROL : ((UNK ? dmax > RSIZE_MAX_MEM : dmax > destbos)) ? (dmax > RSIZE_MAX_MEM ? ESLEMAX : EOVERFLOW) : ESLEMAX)) /* @C05 */
__CPROVER_ensures(!VALID ==> g_mcalls == 0) /* @C05 @C02 */
__CPROVER_ensures((!VALID && resultp != NULL) ==> *resultp == NULL) /* @C10 */
__CPROVER_ensures(VALID ==> (g_mcalls == 1 && g_mn == dmax && (unsigned char)g_mc == (unsigned char)ch && *resultp == g_mret && ((R == EOK) == (g_mret != NULL)))) /* @C10 */
__CPROVER_ensures(R == EOK ==> (__CPROVER_same_object(*resultp, dest) && IDX < dmax && IDX < g_ssz && D(IDX) == (unsigned char)ch)) /* @C10 */
__CPROVER_ensures((R == EOK && gk < dmax && NONE_BEFORE(IDX)) ==> D(gk) != (unsigned char)ch) /* @C10 */
__CPROVER_ensures((R == ESNOTFND && gk < dmax) ==> (*resultp == NULL && D(gk) != (unsigned char)ch)) /* @C10 */
;

void harness(void)
{
    size_t nb, dmax, destbos; int dnull, rnull, ch;
    __CPROVER_assume(g_ssz >= 1 && g_ssz <= ((size_t)1 << 20));
    nb = g_ssz;
    unsigned char *d = malloc(nb);                         /* exact fit */
    __CPROVER_assume(d != NULL);
    g_dest0 = d; g_hcalls = 0; g_mcalls = 0;
    errno_t r = F(dnull ? NULL : d, dmax, ch, rnull ? NULL : &g_res, destbos);
    /* non-vacuity: each must FAIL */
    CANARY(!(r == EOK && g_res != (void *)d && g_res != (void *)(d + dmax - 1)), "found strictly inside reachable");
    CANARY(r != ESNOTFND, "not-found reachable");
    CANARY(!(r == EOK && destbos != BOS_UNKNOWN), "known object size reachable");
    CANARY(!(r == EOK && ch < 0), "negative ch reachable");
    CANARY(g_hcalls == 0, "constraint violation reachable");
}
