/* Engine A: _memcmp_s_chk (src/extmem/memcmp_s.c) under a loop contract, every dmax / slen
 * (C02 loads, C10 result, C05, C01 frame).  dest and src are separate exact-fit byte objects of
 * symbolic size; object sizes known or unknown to the library; truthful caller (an unknown object
 * really has dmax resp. slen bytes).
 *   - the call succeeds exactly when no size constraint is violated; a failing call reports once
 *     with the returned code and leaves *diff at -1;
 *   - *diff is -1, 0 or 1; 0 implies the first slen bytes agree (arbitrary index gk); at index 0 the
 *     sign is that of the unsigned byte difference (the general first-difference statement needs an
 *     existential witness: bounded job B.q.memcmp_s);
 *   - only *diff is assigned.
 */
#include "verif.h"
#include "ghost_ts.h"
size_t g_n0, g_sz1, g_sz2, gk; unsigned long g_cn, g_ct; int g_hcalls; int g_herr;
static const unsigned char *g_b1, *g_b2; static int g_diff; size_t g_dmax0;
void invoke_safe_mem_constraint_handler(const char *restrict m, void *restrict p, errno_t e)
{ g_hcalls++; g_herr = e; }

#define R __CPROVER_return_value
#define DUNK (destbos == BOS_UNKNOWN)
#define SUNK (srcbos == BOS_UNKNOWN)
#define VALID (dmax != 0 && ((DUNK && dmax <= RSIZE_MAX_MEM) || (!DUNK && dmax <= destbos)) && \
               slen != 0 && ((SUNK && slen <= RSIZE_MAX_MEM) || (!SUNK && slen <= srcbos)) && slen <= dmax)
#define P(i) ((const unsigned char *)dest)[(i) * (size_t)((i) < g_sz1)]
#define Q(i) ((const unsigned char *)src)[(i) * (size_t)((i) < g_sz2)]

errno_t _memcmp_s_chk(const void *dest, rsize_t dmax, const void *src, rsize_t slen, int *diff,
                      const size_t destbos, const size_t srcbos)
__CPROVER_requires(dest == g_b1 && src == g_b2 && diff == &g_diff && __CPROVER_r_ok(dest, g_sz1) && __CPROVER_r_ok(src, g_sz2))
__CPROVER_requires(slen == g_n0 && dmax == g_dmax0 && g_hcalls == 0)
__CPROVER_requires(DUNK ? (dmax > RSIZE_MAX_MEM || dmax <= g_sz1) : destbos == g_sz1)
__CPROVER_requires(SUNK ? (slen > RSIZE_MAX_MEM || slen <= g_sz2) : srcbos == g_sz2)
__CPROVER_assigns(g_diff, g_hcalls, g_herr)
__CPROVER_ensures(VALID == (R == EOK)) /* @C05 */
__CPROVER_ensures(R == EOK ? g_hcalls == 0 : (g_hcalls == 1 && g_herr == R && *diff == -1)) /* @C05 */
__CPROVER_ensures(R == EOK ==> (*diff == 0 || *diff == 1 || *diff == -1)) /* @C10 */
__CPROVER_ensures((R == EOK && *diff == 0 && gk < slen) ==> P(gk) == Q(gk)) /* @C10 */
__CPROVER_ensures((R == EOK && gk == 0 && P(gk) != Q(gk)) ==> *diff == (P(gk) < Q(gk) ? -1 : 1)) /* @C10 */
;

void harness(void)
{
    size_t dmax, slen, destbos, srcbos, nb1, nb2;
    __CPROVER_assume(g_sz1 >= 1 && g_sz2 >= 1 && g_sz1 <= RSIZE_MAX_MEM + 2 && g_sz2 <= RSIZE_MAX_MEM + 2);
    nb1 = g_sz1; nb2 = g_sz2;
    unsigned char *p = malloc(nb1), *q = malloc(nb2);      /* exact fit, separate objects */
    __CPROVER_assume(p && q);
    g_b1 = p; g_b2 = q; g_n0 = slen; g_dmax0 = dmax; g_hcalls = 0;
    errno_t r = _memcmp_s_chk(p, dmax, q, slen, &g_diff, destbos, srcbos);
    /* non-vacuity: each must FAIL */
    CANARY(!(r == EOK && g_diff == 0 && slen > 2), "equal regions of more than two bytes reachable");
    CANARY(!(r == EOK && g_diff != 0 && slen > 2), "difference reachable");
    CANARY(r == EOK, "constraint violation reachable");
    CANARY(!(r == EOK && destbos != BOS_UNKNOWN && srcbos == BOS_UNKNOWN), "mixed known/unknown sizes reachable");
}
