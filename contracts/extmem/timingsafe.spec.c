/* Engine A: timingsafe_bcmp (-DFN=1) / timingsafe_memcmp (-DFN=2) for every n (C19, C02, C05, C10).
 * `goto-instrument --branch verif_branch` inserts a call at both outcomes of every branch of the
 * program; verif_branch counts them.  The loop contract states that the counters advance by a
 * function of the iteration count only, and the harness runs the real function twice on regions with
 * INDEPENDENT contents (same n, same size arguments): the numbers of taken / not-taken branch events
 * must agree - for every n, not only n <= 6 as in the bounded job B.timingsafe_*.
 * Result: the part that needs no existential witness - 0 implies equal regions (arbitrary index gk),
 * the value range, and the sign at index 0 for memcmp.
 * b1, b2: separate exact-fit objects of symbolic size; object sizes known or unknown to the library. */
#include "verif.h"
#include "ghost_ts.h"

size_t g_n0, g_sz1, g_sz2, gk; unsigned long g_cn, g_ct; int g_hcalls; int g_herr;
static const unsigned char *g_b1, *g_b2;
void verif_branch(const char *which) { if (which[0] == 't') g_ct++; else g_cn++; }
void invoke_safe_mem_constraint_handler(const char *restrict m, void *restrict p, errno_t e)
{ g_hcalls++; g_herr = e; }

#if FN == 1
#define F _timingsafe_bcmp_chk
#else
#define F _timingsafe_memcmp_chk
#endif
#define R __CPROVER_return_value
#define DUNK (destbos == BOS_UNKNOWN)
#define SUNK (srcbos == BOS_UNKNOWN)
#define VALID (((DUNK && n <= RSIZE_MAX_MEM) || (!DUNK && n <= destbos)) && (SUNK || n <= srcbos))
#define P(i) ((const unsigned char *)b1)[(i) * (size_t)((i) < g_sz1)]
#define Q(i) ((const unsigned char *)b2)[(i) * (size_t)((i) < g_sz2)]

int F(const void *b1, const void *b2, size_t n, const size_t destbos, const size_t srcbos)
__CPROVER_requires(b1 == g_b1 && b2 == g_b2 && __CPROVER_r_ok(b1, g_sz1) && __CPROVER_r_ok(b2, g_sz2))
__CPROVER_requires(n == g_n0 && g_hcalls == 0)
__CPROVER_requires(DUNK ? (n > RSIZE_MAX_MEM || n <= g_sz1) : destbos == g_sz1)
__CPROVER_requires(SUNK ? (n <= g_sz2 || !(((DUNK && n <= RSIZE_MAX_MEM) || (!DUNK && n <= destbos)))) : srcbos == g_sz2)
__CPROVER_assigns(g_hcalls, g_herr, g_cn, g_ct)
__CPROVER_ensures(VALID ? g_hcalls == 0 : (g_hcalls == 1 && g_herr == ESLEMAX && R == -ESLEMAX)) /* @C05 */
#if FN == 1
__CPROVER_ensures(VALID ==> (R == 0 || R == 1)) /* @C19 */
#else
__CPROVER_ensures(VALID ==> (R == 0 || R == 1 || R == -1)) /* @C19 */
__CPROVER_ensures((VALID && n > 0 && gk == 0 && P(gk) != Q(gk)) ==> R == (P(gk) < Q(gk) ? -1 : 1)) /* @C19 */
#endif
__CPROVER_ensures((VALID && R == 0 && gk < n) ==> P(gk) == Q(gk)) /* @C19 */
;

void harness(void)
{
    size_t n, destbos, srcbos, nb1, nb2;
    __CPROVER_assume(g_sz1 >= 1 && g_sz2 >= 1 && g_sz1 <= RSIZE_MAX_MEM + 2 && g_sz2 <= RSIZE_MAX_MEM + 2);
    nb1 = g_sz1; nb2 = g_sz2;
    unsigned char *p = malloc(nb1), *q = malloc(nb2), *p2 = malloc(nb1), *q2 = malloc(nb2);   /* independent contents */
    __CPROVER_assume(p && q && p2 && q2);
    g_n0 = n;
    g_hcalls = 0; g_cn = 0; g_ct = 0; g_b1 = p; g_b2 = q;
    int r1 = F(p, q, n, destbos, srcbos);
    unsigned long cn1 = g_cn, ct1 = g_ct;
    g_hcalls = 0; g_cn = 0; g_ct = 0; g_b1 = p2; g_b2 = q2;
    int r2 = F(p2, q2, n, destbos, srcbos);
    CHECK(cn1 == g_cn && ct1 == g_ct, "C19: the number of branches taken / not taken depends on the contents of the regions");
    /* non-vacuity: each must FAIL */
    CANARY(!(r1 == 0 && r2 != 0 && n > 2), "different results for the two contents reachable");
    CANARY(g_hcalls == 0, "constraint violation reachable");
    CANARY(!(g_hcalls == 0 && destbos != BOS_UNKNOWN && srcbos == BOS_UNKNOWN && n > 2), "mixed known/unknown sizes reachable");
}
