/* Engine C (loop-free, full domain): contract for strerror_s, enforced on the real body (the real
 * strerrorlen_s and the real message tables are part of the translation unit).
 * Callees as contracts (ghost bodies, A3):
 *   strerror, strlen            - assumed: a NUL-terminated message of g_mlen characters in its own object;
 *   _strcpy_s_chk, _strncpy_s_chk, _strcat_s_chk - the contracts proved by A.strcpy_s / A.strncpy_s /
 *       A.strcat_s, restated for a VALID destination (non-null, 0 < dmax, within RSIZE_MAX_STR when the
 *       object size is unknown, within the object when it is known): then dest holds a terminated string
 *       afterwards and no handler is invoked.  The requires side is checked at each call site and tagged
 *       @C05: an invalid destination makes the callee invoke the constraint handler although strerror_s
 *       reports success (and leaves dest unwritten).
 * dest is an exact-fit object of symbolic size, dmax / errnum any value, destbos unknown or true.
 * Stated: C05 (success without handler exactly when no constraint is violated, else handler once with the
 * returned code), C03 (success => a NUL within dmax, through the callee contracts), frame. */
#include "verif.h"

char *g_dest0; const char *g_msg; size_t g_ssz, g_mlen, gk; int g_hcalls; int g_herr; int g_ccalls; size_t g_term;
size_t nondet_size_t(void);
void invoke_safe_str_constraint_handler(const char *restrict m, void *restrict p, errno_t e)
{ g_hcalls++; g_herr = e; }
char *strerror(int e) { (void)e; return (char *)g_msg; }
size_t strlen(const char *s)
{
    __CPROVER_precondition(s == g_msg, "strlen source region readable: called on something other than the libc message");
    return g_mlen;
}
#define DEST_OK(dest, dmax, destbos) ((dest) == g_dest0 && (dmax) != 0 && (dmax) <= g_ssz && ((destbos) == BOS_UNKNOWN ? (dmax) <= RSIZE_MAX_STR : (dmax) <= (destbos)))
static errno_t producer(char *dest, rsize_t dmax)
{
    g_ccalls++;
    char tmp[dmax];
    __CPROVER_array_replace(dest, tmp);
    size_t w = nondet_size_t();
    __CPROVER_assume(w < dmax && dest[w * (size_t)(w < dmax)] == 0);
    g_term = w;
    return EOK;
}
errno_t _strcpy_s_chk(char *restrict dest, rsize_t dmax, const char *restrict src, const size_t destbos)
{
    __CPROVER_precondition(DEST_OK(dest, dmax, destbos), "@C05 strcpy_s is called with a destination that violates its own runtime-constraints: it invokes the handler while strerror_s reports success");
    return producer(dest, dmax);
}
errno_t _strncpy_s_chk(char *restrict dest, rsize_t dmax, const char *restrict src, rsize_t slen, const size_t destbos, const size_t srcbos)
{
    __CPROVER_precondition(DEST_OK(dest, dmax, destbos) && slen < dmax, "@C05 strncpy_s is called with operands that violate its own runtime-constraints: it invokes the handler while strerror_s reports success");
    (void)srcbos;
    return producer(dest, dmax);
}
errno_t _strcat_s_chk(char *restrict dest, rsize_t dmax, const char *restrict src, const size_t destbos)
{
    __CPROVER_precondition(DEST_OK(dest, dmax, destbos), "@C05 strcat_s is called with a destination that violates its own runtime-constraints: it invokes the handler while strerror_s reports success");
    return producer(dest, dmax);
}

#define R __CPROVER_return_value
#define UNK (destbos == BOS_UNKNOWN)
#define VALID (dest != NULL && dmax != 0 && (UNK ? dmax <= RSIZE_MAX_STR : dmax <= destbos))
#define D(i) dest[(i) * (size_t)((i) < g_ssz)]

errno_t _strerror_s_chk(char *dest, rsize_t dmax, errno_t errnum, const size_t destbos)
__CPROVER_requires(dest == NULL || (dest == g_dest0 && __CPROVER_w_ok(dest, g_ssz)))
__CPROVER_requires(g_ssz >= 1 && g_hcalls == 0 && g_ccalls == 0)
__CPROVER_requires(UNK || destbos == g_ssz)
__CPROVER_requires((UNK && dest != NULL) ==> (dmax > RSIZE_MAX_STR || dmax <= g_ssz))
__CPROVER_assigns(g_hcalls, g_herr, g_ccalls, g_term; dest != NULL: __CPROVER_object_whole(dest))
__CPROVER_ensures(R == EOK ? g_hcalls == 0 : (g_hcalls == 1 && g_herr == R)) /* @C05 */
__CPROVER_ensures(!VALID ==> (R != EOK && g_ccalls == 0)) /* @C05 */
__CPROVER_ensures(!VALID ==> R == (dest == NULL ? ESNULLP : dmax == 0 ? ESZEROL : dmax > RSIZE_MAX_STR ? ESLEMAX : EOVERFLOW)) /* @C05 */
__CPROVER_ensures(VALID ==> (R == EOK || R == ESLEMIN)) /* @C05 */
__CPROVER_ensures((VALID && dmax > 3) ==> R == EOK) /* @C05 */
__CPROVER_ensures(R == EOK ==> (g_ccalls >= 1 && g_term < dmax && g_term < g_ssz && D(g_term) == 0)) /* @C03 */
;

void harness(void)
{
    size_t nb, nb2, dmax, destbos; int dnull; errno_t errnum;
    __CPROVER_assume(g_ssz >= 1 && g_ssz <= 2 * RSIZE_MAX_STR + 2 && g_mlen <= 200);
    nb = g_ssz; nb2 = g_mlen + 1;
    char *d = malloc(nb), *m = malloc(nb2);
    __CPROVER_assume(d != NULL && m != NULL);
    m[g_mlen] = 0;
    g_dest0 = d; g_msg = m; g_hcalls = 0; g_ccalls = 0;
    errno_t r = _strerror_s_chk(dnull ? NULL : d, dmax, errnum, destbos);
    /* non-vacuity: each must FAIL */
    CANARY(!(r == EOK && g_ccalls == 1), "plain copy reachable");
    CANARY(!(r == EOK && g_ccalls == 2), "truncated copy reachable");
    CANARY(!(r == EOK && errnum >= ESNULLP && errnum <= ESLAST), "library message reachable");
    CANARY(!(r == EOK && errnum == 2), "libc message reachable");
    CANARY(r != ESLEMIN, "too small reachable");
    CANARY(!(r == EOK && destbos != BOS_UNKNOWN), "known object size reachable");
    CANARY(g_hcalls == 0, "constraint violation reachable");
}
