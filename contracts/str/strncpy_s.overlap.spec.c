/* Engine A: _strncpy_s_chk (src/str/strncpy_s.c) for OVERLAPPING declared extents (C07), every size:
 * one arena, src and dest at different positions with dest[0..dmax) and src[0..g_ssz) intersecting,
 * either order; destbos unknown.  delta = |src - dest| (elements).
 *   - never a silently corrupted copy: whatever success leaves in dest is the ORIGINAL source text;
 *   - success only when the elements written (string + terminator) and read do not intersect
 *     (result shorter than delta);
 *   - the overlap error only when they would (the first delta source elements are non-NUL), with
 *     dest cleared and the handler called once; no access past either operand (pointer obligations);
 *   - (dest above src: a copy of exactly delta elements ended by slen is disjoint and succeeds)
 *   - C03/C04/C05 as in the disjoint job; 1 <= slen <= RSIZE_MAX_STR.  Quantifier-free: gk arbitrary.
 */
#include "verif.h"
#include "ghost_str.h"

char *g_arena; size_t g_asz, g_doff, g_soff, g_ssz, g_slen0;
size_t gk, gj; char gsrc_k, gsrc_j, gdst_k, gdst_j; size_t g_dlen;
int g_hcalls; int g_herr; int g_sterm;
void invoke_safe_str_constraint_handler(const char *restrict m, void *restrict p, errno_t e)
{ g_hcalls++; g_herr = e; }

#define R __CPROVER_return_value
#define DELTA (g_doff < g_soff ? g_soff - g_doff : g_doff - g_soff)
errno_t _strncpy_s_chk(char *restrict dest, rsize_t dmax, const char *restrict src, rsize_t slen, const size_t destbos, const size_t srcbos)
__CPROVER_requires(destbos == BOS_UNKNOWN && srcbos == BOS_UNKNOWN && slen == g_slen0 && 1 <= slen && slen <= RSIZE_MAX_STR)
__CPROVER_requires(dest == g_arena + g_doff)
__CPROVER_requires(src == g_arena + g_soff)
__CPROVER_requires(1 <= dmax && dmax <= RSIZE_MAX_STR && g_doff <= g_asz && dmax <= g_asz - g_doff)
__CPROVER_requires(g_soff < g_asz && g_ssz >= 1 && g_ssz <= g_asz - g_soff)
__CPROVER_requires(g_sterm ? src[g_ssz - 1] == 0 : (g_ssz >= dmax || g_ssz >= slen))
__CPROVER_requires(gk < dmax && g_hcalls == 0)
/* declared extents intersect, pointers differ */
__CPROVER_requires(g_doff != g_soff && g_doff < g_soff + g_ssz && g_soff < g_doff + dmax)
__CPROVER_requires(gk < g_ssz ==> gsrc_k == src[gk * (size_t)(gk < g_ssz)])
__CPROVER_assigns(__CPROVER_object_upto(dest, dmax), g_hcalls, g_herr)
__CPROVER_ensures(R == EOK ? g_hcalls == 0 : (g_hcalls == 1 && g_herr == R)) /* @C05 */
__CPROVER_ensures(R == EOK || R == ESNOSPC || R == ESOVRLP) /* @C05 */
__CPROVER_ensures(gk == dmax - 1 ==> dest[gk] == 0) /* @C03 */
__CPROVER_ensures(R != EOK ==> dest[gk] == 0) /* @C04 */
__CPROVER_ensures((R == EOK && dest[gk] != 0) ==> (gk < g_ssz && gk < slen && dest[gk] == gsrc_k)) /* @C07 */
__CPROVER_ensures((R == EOK && dest[gk] != 0) ==> (g_doff < g_soff ? gk + 1 < DELTA : gk < DELTA)) /* @C07 */
__CPROVER_ensures((R == ESOVRLP && gk < DELTA) ==> (gk < g_ssz && gk < slen && gsrc_k != 0)) /* @C07 */
__CPROVER_ensures((R == ESNOSPC && gk < g_ssz && gk < slen) ==> gsrc_k != 0) /* @C07 */
/* never rejects a copy whose written and read elements are disjoint: the request really reaches the other operand */
__CPROVER_ensures(R == ESOVRLP ==> (g_doff < g_soff ? slen >= DELTA : slen > DELTA)) /* @C07 */
;

void harness(void)
{
    __CPROVER_assume(g_asz >= 1 && g_asz <= 3 * RSIZE_MAX_STR);
    g_arena = malloc(g_asz);
    __CPROVER_assume(g_arena != NULL);
    size_t dmax, slen;
    __CPROVER_assume(g_doff <= g_asz);
    __CPROVER_assume(g_soff < g_asz && g_ssz >= 1 && g_ssz <= g_asz - g_soff);
    gsrc_k = (gk < g_ssz) ? g_arena[g_soff + gk] : 0;
    g_hcalls = 0; g_slen0 = slen;
    errno_t r = _strncpy_s_chk(g_arena + g_doff, dmax, g_arena + g_soff, slen, BOS_UNKNOWN, BOS_UNKNOWN);
    /* non-vacuity: each must FAIL */
    CANARY(!(r == EOK && g_doff < g_soff && gk == 1 && gsrc_k != 0), "success with dest below src reachable");
    CANARY(!(r == EOK && g_doff > g_soff && gk == 1 && gsrc_k != 0), "success with dest above src reachable");
    CANARY(!(r == ESOVRLP && g_doff < g_soff), "overlap error with dest below src reachable");
    CANARY(!(r == ESOVRLP && g_doff > g_soff), "overlap error with dest above src reachable");
    CANARY(r != ESNOSPC, "no-space reachable");
}
