/* Engine A: contract for the real _strcpy_s_chk (src/str/strcpy_s.c), layout A (one arena,
 * disjoint extents, either pointer order), destbos unknown, sizes symbolic up to the
 * library's own RSIZE_MAX_STR.  Quantifier-free: gk/gj are arbitrary indices. */
#include "verif.h"
#include "ghost_str.h"

char *g_arena; size_t g_asz, g_doff, g_soff, g_ssz;
size_t gk, gj; char gsrc_k, gsrc_j, gdst_k, gdst_j; size_t g_dlen;
int g_hcalls; int g_herr;

/* ghost body of the reporting primitive: counts calls, records the code (C05) */
void invoke_safe_str_constraint_handler(const char *restrict m, void *restrict p, errno_t e)
{ g_hcalls++; g_herr = e; }

errno_t _strcpy_s_chk(char *restrict dest, rsize_t dmax, const char *restrict src, const size_t destbos)
__CPROVER_requires(destbos == BOS_UNKNOWN)
__CPROVER_requires(dest == g_arena + g_doff)
__CPROVER_requires(src == g_arena + g_soff)
__CPROVER_requires(1 <= dmax && dmax <= RSIZE_MAX_STR && g_doff <= g_asz && dmax <= g_asz - g_doff)
__CPROVER_requires(g_soff < g_asz && g_ssz >= 1 && g_ssz <= g_asz - g_soff)
__CPROVER_requires(src[g_ssz - 1] == 0 || g_ssz >= dmax)
__CPROVER_requires(gk < dmax && gj < dmax && g_hcalls == 0)
__CPROVER_requires(g_doff + dmax <= g_soff || g_soff + g_ssz <= g_doff)
__CPROVER_assigns(__CPROVER_object_upto(dest, dmax), g_hcalls, g_herr)
__CPROVER_ensures(__CPROVER_return_value == EOK ? g_hcalls == 0 : (g_hcalls == 1 && g_herr == __CPROVER_return_value)) /* @C05 */
__CPROVER_ensures(__CPROVER_return_value == EOK || __CPROVER_return_value == ESNOSPC) /* @C05 */
__CPROVER_ensures(gk == dmax - 1 ==> dest[gk] == 0) /* @C03 */
__CPROVER_ensures((gj + 1 == gk && dest[gj] == 0) ==> dest[gk] == 0) /* @C08 */
__CPROVER_ensures(__CPROVER_return_value != EOK ==> dest[gk] == 0) /* @C04 */
__CPROVER_ensures((__CPROVER_return_value == EOK && dest[gk] != 0) ==> (gk < g_ssz && dest[gk] == gsrc_k)) /* @C06 */
__CPROVER_ensures((__CPROVER_return_value == EOK && dest[gk] == 0 && (gk == 0 || (gj + 1 == gk && dest[gj] != 0))) ==> (gk < g_ssz && gsrc_k == 0)) /* @C06 */
__CPROVER_ensures((__CPROVER_return_value == ESNOSPC && gk < g_ssz) ==> gsrc_k != 0) /* @C06 */
;

void harness(void)
{
    __CPROVER_assume(g_asz >= 1 && g_asz <= 3 * RSIZE_MAX_STR);
    g_arena = malloc(g_asz);
    __CPROVER_assume(g_arena != NULL);
    size_t dmax;
    __CPROVER_assume(g_doff <= g_asz);
    __CPROVER_assume(g_soff < g_asz && g_ssz >= 1 && g_ssz <= g_asz - g_soff);
    gsrc_k = (gk < g_ssz) ? g_arena[g_soff + gk] : 0;
    gsrc_j = (gj < g_ssz) ? g_arena[g_soff + gj] : 0;
    g_hcalls = 0;
    _strcpy_s_chk(g_arena + g_doff, dmax, g_arena + g_soff, BOS_UNKNOWN);
}
