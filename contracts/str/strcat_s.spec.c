/* Engine A: contract for the real _strcat_s_chk (src/str/strcat_s.c) / _strncat_s_chk (-DNCAT,
 * src/str/strncat_s.c), layout A (one arena, disjoint extents, either pointer order), object sizes
 * unknown to the library, dmax (and slen) symbolic up to RSIZE_MAX_STR.  dest holds ARBITRARY contents
 * (terminated or not).  Quantifier-free: gk/gj are arbitrary indices.
 * Unbounded: C01 (frame), C02 (loads), C03, C04, C05, C08.  The exact concatenation result (C06)
 * needs the position of dest's first NUL as an existential witness and stays with the bounded jobs;
 * only its index-0 consequences are stated here. */
#include "verif.h"
#include "ghost_str.h"

char *g_arena; size_t g_asz, g_doff, g_soff, g_ssz, g_slen0;
size_t gk, gj; char gsrc_k, gsrc_j, gdst_k, gdst_j; size_t g_dlen;
int g_hcalls; int g_herr;

void invoke_safe_str_constraint_handler(const char *restrict m, void *restrict p, errno_t e)
{ g_hcalls++; g_herr = e; }

#define R __CPROVER_return_value
#ifdef NCAT
#define F _strncat_s_chk
#define SLEN_PARAM , rsize_t slen
#define BOS_PARAMS , const size_t destbos, const size_t srcbos
#define SLEN_NONZERO (slen != 0)
#else
#define F _strcat_s_chk
#define SLEN_PARAM
#define BOS_PARAMS , size_t destbos
#define SLEN_NONZERO 1
#endif

errno_t F(char *restrict dest, rsize_t dmax, const char *restrict src SLEN_PARAM BOS_PARAMS)
__CPROVER_requires(destbos == BOS_UNKNOWN)
#ifdef NCAT
/* slen == 0 (documented special case: clears dest through strnlen_s + handler) and slen > RSIZE_MAX_STR
   stay with the bounded jobs */
__CPROVER_requires(srcbos == BOS_UNKNOWN && slen == g_slen0 && 1 <= slen && slen <= RSIZE_MAX_STR)
#endif
__CPROVER_requires(dest == g_arena + g_doff)
__CPROVER_requires(src == g_arena + g_soff)
__CPROVER_requires(1 <= dmax && dmax <= RSIZE_MAX_STR && g_doff <= g_asz && dmax <= g_asz - g_doff)
__CPROVER_requires(g_soff < g_asz && g_ssz >= 1 && g_ssz <= g_asz - g_soff)
#ifdef NCAT
__CPROVER_requires(src[g_ssz - 1] == 0 || g_ssz >= dmax || g_ssz >= slen)
#else
__CPROVER_requires(src[g_ssz - 1] == 0 || g_ssz >= dmax)
#endif
__CPROVER_requires(gk < dmax && gj < dmax && g_hcalls == 0)
__CPROVER_requires(g_doff + dmax <= g_soff || g_soff + g_ssz <= g_doff)
__CPROVER_requires(gdst_k == dest[gk] && gdst_j == dest[gj])
__CPROVER_assigns(__CPROVER_object_upto(dest, dmax), g_hcalls, g_herr)
__CPROVER_ensures(R == EOK ? g_hcalls == 0 : (g_hcalls == 1 && g_herr == R)) /* @C05 */
__CPROVER_ensures(R == EOK || R == ESNOSPC || R == ESUNTERM) /* @C05 */
__CPROVER_ensures((SLEN_NONZERO && gk == dmax - 1) ==> dest[gk] == 0) /* @C03 */
__CPROVER_ensures((SLEN_NONZERO && gj + 1 == gk && dest[gj] == 0) ==> dest[gk] == 0) /* @C08 */
__CPROVER_ensures(R != EOK ==> dest[gk] == 0) /* @C04 */
__CPROVER_ensures(R == ESUNTERM ==> gdst_k != 0) /* @C06 */
__CPROVER_ensures((R == EOK && gk == 0 && gdst_k != 0) ==> dest[gk] == gdst_k) /* @C06 */
__CPROVER_ensures((R == EOK && SLEN_NONZERO && gk == 0 && gdst_k == 0) ==> dest[gk] == gsrc_k) /* @C06 */
;

void harness(void)
{
    __CPROVER_assume(g_asz >= 1 && g_asz <= 3 * RSIZE_MAX_STR);
    g_arena = malloc(g_asz);
    __CPROVER_assume(g_arena != NULL);
    size_t dmax, slen;
    __CPROVER_assume(g_doff <= g_asz);
    __CPROVER_assume(g_soff < g_asz && g_ssz >= 1 && g_ssz <= g_asz - g_soff);
    gsrc_k = (gk < g_ssz) ? g_arena[g_soff + gk] : 0;
    gsrc_j = (gj < g_ssz) ? g_arena[g_soff + gj] : 0;
    if (g_doff + gk < g_asz) gdst_k = g_arena[g_doff + gk];
    if (g_doff + gj < g_asz) gdst_j = g_arena[g_doff + gj];
    g_hcalls = 0; g_slen0 = slen;
#ifdef NCAT
    errno_t r = F(g_arena + g_doff, dmax, g_arena + g_soff, slen, BOS_UNKNOWN, BOS_UNKNOWN);
#else
    errno_t r = F(g_arena + g_doff, dmax, g_arena + g_soff, BOS_UNKNOWN);
#endif
    /* non-vacuity: each must FAIL */
    CANARY(r != EOK, "success reachable");
    CANARY(r != ESNOSPC, "no-space reachable");
    CANARY(r != ESUNTERM, "unterminated dest reachable");
    CANARY(!(r == EOK && gdst_k != 0 && gk == 1 && dmax > 0x40), "non-empty dest, memset side of the 0x20 switch reachable");
    CANARY(!(r == EOK && dmax < 0x20 && g_doff > g_soff && gdst_k != 0 && gk == 0), "dest above src, loop side of the switch reachable");
}
