/* Engine A: contract for the real _strnlen_s_chk (src/str/strnlen_s.c) / _wcsnlen_s_chk
 * (src/wchar/wcsnlen_s.c, -DWIDE): str is NULL or points to an exact-fit object of g_ssz elements
 * (any stray read is a pointer obligation), smax any 64-bit value, strbos unknown or the true size.
 * Truthfulness of the caller (property precondition): with an unknown object size the object
 * has at least smax elements or holds a NUL.  Quantifier-free: gk arbitrary, g_nul a Skolem index.
 * C02 (reads stay inside the object), C10 (result = index of the first NUL, or smax), C05, C01 (frame).
 */
#include "verif.h"
#include <wchar.h>
#include "ghost_len.h"
#ifdef WIDE
typedef wchar_t CH;
#define FN _wcsnlen_s_chk
#define RMAX RSIZE_MAX_WSTR
#else
typedef char CH;
#define FN _strnlen_s_chk
#define RMAX RSIZE_MAX_STR
#endif
#define ES sizeof(CH)

const void *g_str0; size_t g_smax0, g_bos0, g_ssz, g_nul, gk; int g_has_nul;
int g_hcalls; int g_herr;

void invoke_safe_str_constraint_handler(const char *restrict m, void *restrict p, errno_t e)
{ g_hcalls++; g_herr = e; }

#define VALID (str != NULL && smax != 0 && smax <= RMAX)
#define R __CPROVER_return_value
/* the object size the library is told, in elements (strnlen_s takes elements? no: bytes == elements for char) */
#ifdef WIDE
#define BOS_EL (strbos / ES)
#else
#define BOS_EL strbos
#endif

rsize_t FN(const CH *str, rsize_t smax, size_t strbos)
__CPROVER_requires(str == NULL || (str == (const CH *)g_str0 && __CPROVER_r_ok(str, g_ssz * ES)))
__CPROVER_requires(g_ssz >= 1 && g_hcalls == 0 && smax == g_smax0 && strbos == g_bos0)
__CPROVER_requires(strbos == BOS_UNKNOWN || strbos == g_ssz * ES)
__CPROVER_requires(g_has_nul ==> (g_nul < g_ssz && (str == NULL || str[g_nul * (size_t)(str != NULL)] == 0)))
__CPROVER_requires((strbos == BOS_UNKNOWN && !g_has_nul) ==> (smax > RMAX || smax <= g_ssz))
__CPROVER_assigns(g_hcalls, g_herr)
/* C05 */
__CPROVER_ensures(VALID ==> g_hcalls == 0) /* @C05 */
#ifndef WIDE
__CPROVER_ensures(str == NULL ==> (g_hcalls == 1 && g_herr == ESNULLP && R == 0)) /* @C05 */
#else
__CPROVER_ensures(str == NULL ==> R == 0) /* @C05 */
#endif
__CPROVER_ensures((str != NULL && smax == 0) ==> (g_hcalls == 1 && g_herr == ESZEROL && R == 0)) /* @C05 */
__CPROVER_ensures((str != NULL && smax > RMAX) ==> (g_hcalls == 1 && g_herr == ESLEMAX && R == 0)) /* @C05 */
/* C10: the standard answer */
__CPROVER_ensures(VALID ==> R <= smax) /* @C10 */
__CPROVER_ensures((VALID && strbos != BOS_UNKNOWN) ==> R <= g_ssz) /* @C10 */
__CPROVER_ensures((VALID && gk < R) ==> str[gk * (size_t)(gk < g_ssz)] != 0) /* @C10 */
__CPROVER_ensures((VALID && R < smax && R < g_ssz) ==> str[R * (size_t)(R < g_ssz)] == 0) /* @C10 */
__CPROVER_ensures((VALID && R < smax) ==> R < g_ssz || strbos != BOS_UNKNOWN) /* @C10 */
;

void harness(void)
{
    size_t nb, smax, strbos; int isnull;
    __CPROVER_assume(g_ssz >= 1 && g_ssz <= 2 * RMAX + 2);
    nb = g_ssz * ES;
    CH *s = malloc(nb);                                   /* exact fit */
    __CPROVER_assume(s != NULL);
    g_str0 = s; g_smax0 = smax; g_bos0 = strbos; g_hcalls = 0;
    rsize_t r = FN(isnull ? NULL : s, smax, strbos);
    /* non-vacuity: each of these must FAIL (the path exists under the requires clauses) */
    CANARY(!(r > 1 && r < smax), "a NUL behind at least two characters is reachable");
    CANARY(!(r > 1 && r == smax), "no NUL within smax is reachable");
    CANARY(!(r > 1 && strbos != BOS_UNKNOWN), "known object size is reachable");
    CANARY(!(r > 1 && strbos == BOS_UNKNOWN && smax > g_ssz), "smax above the object size with a terminated string is reachable");
    CANARY(g_hcalls == 0, "constraint violation is reachable");
}
