/* Engine A: contract for the real _strncpy_s_chk (src/str/strncpy_s.c), layout A (one arena,
 * disjoint extents, either pointer order), destbos/srcbos unknown, dmax and slen symbolic up to the
 * library's own RSIZE_MAX_STR (the slen > RSIZE_MAX_STR rejection path calls strnlen_s and stays with
 * the bounded jobs).  Quantifier-free: gk/gj are arbitrary indices. */
#include "verif.h"
#include "ghost_str.h"

char *g_arena; size_t g_asz, g_doff, g_soff, g_ssz, g_slen0;
size_t gk, gj; char gsrc_k, gsrc_j, gdst_k, gdst_j; size_t g_dlen;
int g_hcalls; int g_herr;

void invoke_safe_str_constraint_handler(const char *restrict m, void *restrict p, errno_t e)
{ g_hcalls++; g_herr = e; }

#define R __CPROVER_return_value
errno_t _strncpy_s_chk(char *restrict dest, rsize_t dmax, const char *restrict src, rsize_t slen,
                       const size_t destbos, const size_t srcbos)
__CPROVER_requires(destbos == BOS_UNKNOWN && srcbos == BOS_UNKNOWN)
__CPROVER_requires(dest == g_arena + g_doff)
__CPROVER_requires(src == g_arena + g_soff)
__CPROVER_requires(1 <= dmax && dmax <= RSIZE_MAX_STR && g_doff <= g_asz && dmax <= g_asz - g_doff)
__CPROVER_requires(slen == g_slen0 && slen <= RSIZE_MAX_STR)
__CPROVER_requires(g_soff < g_asz && g_ssz >= 1 && g_ssz <= g_asz - g_soff)
/* truthful caller: src is terminated inside its extent, or has at least min(slen, dmax) elements */
__CPROVER_requires(src[g_ssz - 1] == 0 || g_ssz >= dmax || g_ssz >= slen)
__CPROVER_requires(gk < dmax && gj < dmax && g_hcalls == 0)
__CPROVER_requires(g_doff + dmax <= g_soff || g_soff + g_ssz <= g_doff)
__CPROVER_requires(gdst_k == dest[gk])
__CPROVER_assigns(__CPROVER_object_upto(dest, dmax), g_hcalls, g_herr)
__CPROVER_ensures(R == EOK ? g_hcalls == 0 : (g_hcalls == 1 && g_herr == R)) /* @C05 */
__CPROVER_ensures(R == EOK || R == ESNOSPC) /* @C05 */
__CPROVER_ensures((slen != 0 && gk == dmax - 1) ==> dest[gk] == 0) /* @C03 */
__CPROVER_ensures((slen != 0 && gj + 1 == gk && dest[gj] == 0) ==> dest[gk] == 0) /* @C08 */
__CPROVER_ensures(R != EOK ==> dest[gk] == 0) /* @C04 */
__CPROVER_ensures((R == EOK && slen != 0 && dest[gk] != 0) ==> (gk < g_ssz && gk < slen && dest[gk] == gsrc_k)) /* @C06 */
__CPROVER_ensures((R == EOK && slen != 0 && dest[gk] == 0 && (gk == 0 || (gj + 1 == gk && dest[gj] != 0))) ==> (gk == slen || (gk < g_ssz && gsrc_k == 0))) /* @C06 */
__CPROVER_ensures((R == ESNOSPC && gk < g_ssz && gk < slen) ==> gsrc_k != 0) /* @C06 */
/* documented special case slen == 0: empty result, nothing else touched */
__CPROVER_ensures(slen == 0 ==> (R == EOK && dest[0] == 0 && (gk == 0 || dest[gk] == gdst_k))) /* @C06 */
;

void harness(void)
{
    __CPROVER_assume(g_asz >= 1 && g_asz <= 3 * RSIZE_MAX_STR);
    g_arena = malloc(g_asz);
    __CPROVER_assume(g_arena != NULL);
    size_t dmax, slen;
    __CPROVER_assume(g_doff <= g_asz);
    __CPROVER_assume(g_soff < g_asz && g_ssz >= 1 && g_ssz <= g_asz - g_soff);
    gsrc_k = (gk < g_ssz) ? g_arena[g_soff + gk] : 0;
    gsrc_j = (gj < g_ssz) ? g_arena[g_soff + gj] : 0;
    if (g_doff + gk < g_asz) gdst_k = g_arena[g_doff + gk];
    g_hcalls = 0; g_slen0 = slen;
    errno_t r = _strncpy_s_chk(g_arena + g_doff, dmax, g_arena + g_soff, slen, BOS_UNKNOWN, BOS_UNKNOWN);
    /* non-vacuity: each must FAIL */
    CANARY(r != EOK, "success reachable");
    CANARY(r != ESNOSPC, "no-space reachable");
    CANARY(!(r == EOK && slen > 2 && slen < g_ssz && dmax > 0x20 + slen), "copy ended by slen, memset side of the 0x20 switch reachable");
    CANARY(!(r == EOK && slen > 2 && dmax < 0x20 && g_doff > g_soff), "dest above src, loop side of the switch reachable");
    CANARY(slen != 0, "slen == 0 reachable");
}
