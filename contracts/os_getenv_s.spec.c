/* Engine C (loop-free, full domain): contract for getenv_s, enforced on the real body.
 * Callees as contracts (ghost bodies, A3):
 *   secure_getenv / getenv - assumed: NULL, or a NUL-terminated string of g_elen characters in an
 *       object of its own (requires: name non-null);
 *   strlen                 - assumed: the length of that string;
 *   _strcpy_s_chk          - the contract proved by A.strcpy_s, restated for the one situation getenv_s
 *       may create: a VALID call (dest non-null, 0 < dmax within the limit, source shorter than dmax).
 *       Its requires side is checked at the call site and tagged @C05: an invalid call makes strcpy_s
 *       invoke the constraint handler although getenv_s reports success.
 *   handle_error, memset: the real inline function / the verifier's model.
 * dest is an exact-fit object of symbolic size, dmax any value, destbos unknown or true, len / dest /
 * name NULL or valid.  Stated: C05 complete (codes, handler exactly once iff a constraint is violated,
 * -1 'not found' and success without handler); C03 / C04 / C06 / C08 clauses are written down for the
 * next step (tags) but the job is registered for C05 only so far. */
#include "verif.h"

char *g_dest0; const char *g_name0; const char *g_env; size_t g_ssz, g_elen, gk; int g_envnull;
int g_hcalls; int g_herr; int g_scalls; int g_errno;
int *__errno_location(void) { return &g_errno; }
void invoke_safe_str_constraint_handler(const char *restrict m, void *restrict p, errno_t e)
{ g_hcalls++; g_herr = e; }

static char *env_stub(const char *name)
{
    __CPROVER_precondition(name != NULL, "getenv handed a null name @C05");
    return g_envnull ? NULL : (char *)g_env;
}
char *secure_getenv(const char *name) { return env_stub(name); }
char *getenv(const char *name) { return env_stub(name); }
size_t strlen(const char *s)
{
    __CPROVER_precondition(s == g_env && !g_envnull, "strlen source region readable: called on something other than the environment value");
    return g_elen;
}
errno_t _strcpy_s_chk(char *restrict dest, rsize_t dmax, const char *restrict src, const size_t destbos)
{
    __CPROVER_precondition(dest != NULL && dmax != 0 && dmax <= g_ssz && (destbos == BOS_UNKNOWN ? dmax <= RSIZE_MAX_STR : dmax <= destbos)
                           && src == g_env && g_elen < dmax,
                           "@C05 strcpy_s is called with operands that violate its own runtime-constraints: it invokes the handler while getenv_s reports success");
    g_scalls++;
    char tmp[dmax];
    __CPROVER_array_replace(dest, tmp);
    __CPROVER_assume(gk < dmax ==> dest[gk * (size_t)(gk < dmax)] == (gk < g_elen ? g_env[gk * (size_t)(gk < g_elen)] : 0));
    __CPROVER_assume(dest[g_elen * (size_t)(g_elen < dmax)] == 0);
    return EOK;
}

#define R __CPROVER_return_value
#define UNK (destbos == BOS_UNKNOWN)
#define VALID ((dest != NULL ? (UNK ? dmax <= RSIZE_MAX_STR : dmax <= destbos) : dmax == 0) && name != NULL)
#define NOSPC (VALID && !g_envnull && dmax != 0 && g_elen >= dmax)
#define D(i) dest[(i) * (size_t)((i) < g_ssz)]
static size_t g_len;

errno_t _getenv_s_chk(size_t *restrict len, char *restrict dest, rsize_t dmax, const char *restrict name, const size_t destbos)
__CPROVER_requires(len == NULL || len == &g_len)
__CPROVER_requires(dest == NULL || (dest == g_dest0 && __CPROVER_w_ok(dest, g_ssz)))
__CPROVER_requires(name == NULL || name == g_name0)
__CPROVER_requires(g_ssz >= 1 && g_hcalls == 0 && g_scalls == 0)
__CPROVER_requires(UNK || destbos == g_ssz)
__CPROVER_requires((UNK && dest != NULL) ==> (dmax > RSIZE_MAX_STR || dmax <= g_ssz))
__CPROVER_assigns(g_len, g_hcalls, g_herr, g_scalls, g_errno; dest != NULL: __CPROVER_object_whole(dest))
__CPROVER_ensures((R == EOK || R == -1) ? g_hcalls == 0 : (g_hcalls == 1 && g_herr == R)) /* @C05 */
__CPROVER_ensures((VALID && !NOSPC) <==> (R == EOK || R == -1)) /* @C05 */
__CPROVER_ensures((VALID && !NOSPC) ==> R == (g_envnull ? -1 : EOK)) /* @C05 */
__CPROVER_ensures(NOSPC ==> R == ESNOSPC) /* @C05 */
__CPROVER_ensures(!VALID ==> R == ((dest == NULL && dmax != 0) ? ESNULLP : (dest != NULL && (UNK ? dmax > RSIZE_MAX_STR : dmax > destbos)) ? ESLEMAX : ESNULLP)) /* @C05 */
__CPROVER_ensures((len != NULL) ==> *len == ((R == EOK) ? g_elen : 0)) /* @C06 */
__CPROVER_ensures((R == EOK && dest != NULL && dmax != 0) ==> (g_elen < dmax && D(g_elen) == 0)) /* @C03 */
__CPROVER_ensures((R == EOK && dest != NULL && dmax != 0 && gk < g_elen) ==> D(gk) == g_env[gk * (size_t)(gk < g_elen)]) /* @C06 */
__CPROVER_ensures((R == EOK && dest != NULL && gk > g_elen && gk < dmax) ==> D(gk) == 0) /* @C08 */
__CPROVER_ensures((R != EOK && VALID && dest != NULL && gk < dmax) ==> D(gk) == 0) /* @C04 */
;

void harness(void)
{
    size_t nb, nb2, dmax, destbos; int dnull, lnull, nnull;
    __CPROVER_assume(g_ssz >= 1 && g_ssz <= 2 * RSIZE_MAX_STR + 2 && g_elen <= 3 * RSIZE_MAX_STR);
    nb = g_ssz; nb2 = g_elen + 1;
    char *d = malloc(nb), *e = malloc(nb2), *n = malloc(4);
    __CPROVER_assume(d != NULL && e != NULL && n != NULL);
    e[g_elen] = 0;
    g_dest0 = d; g_env = e; g_name0 = n; g_hcalls = 0; g_scalls = 0;
    errno_t r = _getenv_s_chk(lnull ? NULL : &g_len, dnull ? NULL : d, dmax, nnull ? NULL : n, destbos);
    /* non-vacuity: each must FAIL */
    CANARY(!(r == EOK && !dnull && g_elen > 2), "value copied reachable");
    CANARY(!(r == EOK && dnull), "length query with null dest reachable");
    CANARY(r != -1, "not-found reachable");
    CANARY(r != ESNOSPC, "value too long reachable");
    CANARY(!(r == EOK && destbos != BOS_UNKNOWN), "known object size reachable");
    CANARY(g_hcalls == 0, "constraint violation reachable");
}
