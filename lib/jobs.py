"""jobs.py - registry of verification jobs (DESIGN.md section 4)."""
from vlib import Job

TRUSTED_BASE = {
    'A1: cbmc 6.11.0 front end + symbolic execution + CaDiCaL; bit-precise LP64 model (size_t 64, wchar_t 32, int 32, little endian)',
    'A2: flat address space for the library\'s own cross-object pointer comparisons ("same object violation" obligations are filtered and counted as assumed)',
    'A3: libc delegates are assumed contracts (stubs/), their requires side is checked at each call site, their ensures side is trusted; memset/memcpy/malloc/free/strcmp use CBMC\'s library models',
    'A4: the configuration in /repo/config.h + include/safe_config.h (null slack on unless the job says noslack, RSIZE_MAX_STR 4096, RSIZE_MAX_MEM 256MB, no WARN_DMAX/ERROR_DMAX)',
    'A5: destbos is truthful (BOS_UNKNOWN or the exact remaining object size)',
    'overlay.py inserts only loop-contract clauses and a ghost #include into a scratch copy of the unmodified source (add-only, self-checked on every run)',
}
STANDING_ASSUMPTIONS = {
    'user constraint handlers return (abort_handler_s does not; nothing after it is observable)',
    'termination: decreases clauses are checked for loops under contract; bounded jobs use unwinding assertions',
}

JOBS = []


def J(*a, **k):
    j = Job(*a, **k)
    JOBS.append(j)
    return j


CORE_PROPS = ['C01', 'C02', 'C03', 'C04', 'C05', 'C06', 'C08']

J('A.strcpy_s.arena', CORE_PROPS, 'A', 'contracts/str/strcpy_s.spec.c',
  sources=['src/str/strcpy_s.c'], overlays={'src/str/strcpy_s.c': 'contracts/str/strcpy_s.loops'},
  enforce='_strcpy_s_chk', functions=['_strcpy_s_chk', 'handle_error'], sliced=True,
  timeout=1200, mem_gb=6,
  note='layout A: one arena, disjoint extents, both pointer orders; destbos unknown; sizes symbolic up to RSIZE_MAX_STR')

BY_NAME = {j.name: j for j in JOBS}
