"""jobs.py - registry of verification jobs (DESIGN.md section 4)."""
from vlib import Job

TRUSTED_BASE = {
    'A1: cbmc 6.11.0 front end + symbolic execution + CaDiCaL; bit-precise LP64 model (size_t 64, wchar_t 32, int 32, little endian)',
    'A2: flat address space for the library\'s own cross-object pointer comparisons ("same object violation" obligations are filtered and counted as assumed)',
    'A3: libc delegates are assumed contracts (stubs/), their requires side is checked at each call site, their ensures side is trusted; memset/memcpy/malloc/free/strcmp use CBMC\'s library models',
    'A4: the configuration in /repo/config.h + include/safe_config.h (null slack on unless the job says noslack, RSIZE_MAX_STR 4096, RSIZE_MAX_MEM 256MB, no WARN_DMAX/ERROR_DMAX)',
    'A5: destbos is truthful (BOS_UNKNOWN or the exact remaining object size)',
    'overlay.py inserts only loop-contract clauses and a ghost #include into a scratch copy of the unmodified source (add-only, self-checked on every run)',
}
STANDING_ASSUMPTIONS = {
    'user constraint handlers return (abort_handler_s does not; nothing after it is observable)',
    'termination: decreases clauses are checked for loops under contract; bounded jobs use unwinding assertions',
}

JOBS = []


def J(*a, **k):
    j = Job(*a, **k)
    JOBS.append(j)
    return j


CORE_PROPS = ['C01', 'C02', 'C03', 'C04', 'C05', 'C06', 'C08']

J('A.strcpy_s.arena', CORE_PROPS, 'A', 'contracts/str/strcpy_s.spec.c',
  sources=['src/str/strcpy_s.c'], overlays={'src/str/strcpy_s.c': 'contracts/str/strcpy_s.loops'},
  enforce='_strcpy_s_chk', functions=['_strcpy_s_chk', 'handle_error'], sliced=True, fallback=('B.strcpy_s.L0', 'B.slack.strcpy_s'),
  timeout=1200, mem_gb=6,
  note='layout A: one arena, disjoint extents, both pointer orders; destbos unknown; sizes symbolic up to RSIZE_MAX_STR')

J('A.strncpy_s.arena', CORE_PROPS, 'A', 'contracts/str/strncpy_s.spec.c',
  sources=['src/str/strncpy_s.c'], overlays={'src/str/strncpy_s.c': 'contracts/str/strncpy_s.loops'},
  enforce='_strncpy_s_chk', functions=['_strncpy_s_chk', 'handle_error'], sliced=True, fallback=('B.strncpy_s.L0', 'B.slack.strncpy_s'),
  timeout=1200, mem_gb=6,
  note='layout A: one arena, disjoint extents, both pointer orders; destbos/srcbos unknown; dmax, slen symbolic up to RSIZE_MAX_STR')
J('A.strcat_s.arena', ['C01', 'C02', 'C03', 'C04', 'C05', 'C06', 'C08'], 'A', 'contracts/str/strcat_s.spec.c',
  sources=['src/str/strcat_s.c'], overlays={'src/str/strcat_s.c': 'contracts/str/strcat_s.loops'},
  enforce='_strcat_s_chk', functions=['_strcat_s_chk', 'handle_error'], sliced=True, fallback=('B.strcat_s.L0', 'B.slack.strcat_s'),
  timeout=1200, mem_gb=6,
  note='layout A: one arena, disjoint extents, both pointer orders; object sizes unknown; arbitrary dest contents; exact concatenation result (C06) only at index 0')
J('A.strncat_s.arena', ['C01', 'C02', 'C03', 'C04', 'C05', 'C06', 'C08'], 'A', 'contracts/str/strcat_s.spec.c', defines=['NCAT'],
  sources=['src/str/strncat_s.c'], overlays={'src/str/strncat_s.c': 'contracts/str/strncat_s.loops'},
  enforce='_strncat_s_chk', functions=['_strncat_s_chk', 'handle_error'], sliced=True, fallback=('B.strncat_s.L0', 'B.slack.strncat_s'),
  timeout=1200, mem_gb=6,
  note='layout A: one arena, disjoint extents, both pointer orders; object sizes unknown; arbitrary dest contents; 1 <= slen <= RSIZE_MAX_STR; exact concatenation result (C06) only at index 0')
J('A.strcpy_s.overlap', ['C07', 'C01', 'C02', 'C03', 'C04', 'C05'], 'A', 'contracts/str/strcpy_s.overlap.spec.c',
  sources=['src/str/strcpy_s.c'], overlays={'src/str/strcpy_s.c': 'contracts/str/strcpy_s.overlap.loops'},
  enforce='_strcpy_s_chk', functions=['_strcpy_s_chk', 'handle_error'], sliced=True, fallback='B.strcpy_s.L0',
  timeout=1200, mem_gb=6,
  note='layout A with INTERSECTING declared extents (src != dest), both pointer orders; destbos unknown; sizes symbolic up to RSIZE_MAX_STR')
J('A.strncpy_s.overlap', ['C07', 'C01', 'C02', 'C03', 'C04', 'C05'], 'A', 'contracts/str/strncpy_s.overlap.spec.c',
  sources=['src/str/strncpy_s.c'], overlays={'src/str/strncpy_s.c': 'contracts/str/strncpy_s.overlap.loops'},
  enforce='_strncpy_s_chk', functions=['_strncpy_s_chk', 'handle_error'], sliced=True, fallback='B.strncpy_s.L0',
  timeout=1200, mem_gb=6,
  note='layout A with INTERSECTING declared extents (src != dest), both pointer orders; sizes unknown to the library; dmax, slen symbolic up to RSIZE_MAX_STR')
J('A.strnlen_s', ['C02', 'C10', 'C05', 'C01'], 'A', 'contracts/str/strnlen_s.spec.c',
  sources=['src/str/strnlen_s.c'], overlays={'src/str/strnlen_s.c': 'contracts/str/strnlen_s.loops'},
  enforce='_strnlen_s_chk', functions=['_strnlen_s_chk'], sliced=False, timeout=600, fallback='B.q.strnlen_s',
  note='exact-fit object of symbolic size, smax any 64-bit value, object size known or unknown to the library')
J('A.wcsnlen_s', ['C02', 'C10', 'C05', 'C01'], 'A', 'contracts/str/strnlen_s.spec.c', defines=['WIDE'],
  sources=['src/wchar/wcsnlen_s.c'], overlays={'src/wchar/wcsnlen_s.c': 'contracts/wchar/wcsnlen_s.loops'},
  enforce='_wcsnlen_s_chk', functions=['_wcsnlen_s_chk'], sliced=False, timeout=600, fallback='B.q.wcsnlen_s',
  note='exact-fit object of symbolic size, smax any 64-bit value, object size known or unknown to the library')

SCAN1 = [(1, 'strisalphanumeric_s'), (2, 'strisascii_s'), (3, 'strisdigit_s'), (4, 'strishex_s'), (5, 'strislowercase_s'),
         (6, 'strismixedcase_s'), (7, 'strisuppercase_s'), (10, 'strzero_s'), (11, 'strset_s'), (12, 'strtolowercase_s'),
         (13, 'strtouppercase_s'), (14, 'strnterminate_s'), (15, 'strnset_s'), (20, 'strfirstchar_s'), (21, 'strlastchar_s')]
for fn, nm in SCAN1:
    src = 'src/extstr/%s.c' % nm
    J('A.%s' % nm, ['C02', 'C05', 'C01'] + (['C10'] if (fn <= 7 or fn >= 20) else ['C03', 'C06', 'C08']), 'A', 'contracts/extstr/scan1.spec.c',
      defines=['FN=%d' % fn], sources=[src], overlays={src: 'contracts/extstr/scan1_%s.loops' % nm},
      enforce='_%s_chk' % nm, functions=['_%s_chk' % nm], sliced=False, timeout=600,
      fallback=('B.q.%s' % nm if (fn <= 7 or fn >= 20) else 'B.w.%s' % nm),
      note='exact-fit object of symbolic size, dmax any 64-bit value, object size known or unknown to the library')

for fn, nm in ((1, 'strfirstdiff_s'), (2, 'strfirstsame_s'), (3, 'strlastdiff_s'), (4, 'strlastsame_s')):
    src = 'src/extstr/%s.c' % nm
    J('A.%s' % nm, ['C10', 'C02', 'C05', 'C01'], 'A', 'contracts/extstr/scan2.spec.c',
      defines=['FN=%d' % fn], sources=[src], overlays={src: 'contracts/extstr/scan2_%s.loops' % nm},
      enforce='_%s_chk' % nm, functions=['_%s_chk' % nm], sliced=False, timeout=600, fallback='B.q.%s' % nm,
      note='two separate exact-fit objects of symbolic size, dmax any 64-bit value, object size of dest known or unknown to the library')

for fn, nm in ((1, 'strcmp_s'), (2, 'strcasecmp_s'), (3, 'strcmpfld_s'), (4, 'strprefix_s')):
    src = 'src/extstr/%s.c' % nm
    J('A.%s' % nm, ['C10', 'C02', 'C05', 'C01'], 'A', 'contracts/extstr/cmp2.spec.c',
      defines=['FN=%d' % fn], sources=[src], overlays={src: 'contracts/extstr/cmp2_%s.loops' % nm},
      enforce='_%s_chk' % nm, functions=['_%s_chk' % nm], sliced=False, timeout=600, fallback='B.q.%s' % nm,
      note='two separate exact-fit objects of symbolic size, dmax any 64-bit value, object sizes known or unknown to the library; answer stated at index 0 (strcmpfld_s: result 0 complete)')

for fn, nm in ((1, 'strspn_s'), (2, 'strcspn_s'), (3, 'strpbrk_s')):
    src = 'src/extstr/%s.c' % nm
    J('A.%s' % nm, ['C10', 'C02', 'C05', 'C01'], 'A', 'contracts/extstr/span2.spec.c',
      defines=['FN=%d' % fn], sources=[src], overlays={src: 'contracts/extstr/span2_%s.loops' % nm},
      enforce='_%s_chk' % nm, functions=['_%s_chk' % nm], sliced=False, timeout=600, fallback='B.q.%s' % nm,
      note='two NESTED loops under contract; two separate exact-fit objects of symbolic size, dmax / slen any 64-bit value, object sizes known or unknown to the library')

for fn, nm in ((1, 'memchr_s'), (2, 'memrchr_s')):
    J('C.%s' % nm, ['C10', 'C02', 'C05', 'C01'], 'C', 'contracts/extmem/memchr_s.spec.c', defines=['FN=%d' % fn],
      sources=['src/extmem/%s.c' % nm], enforce='_%s_chk' % nm, functions=['_%s_chk' % nm], timeout=300, fallback='B.q.%s' % nm,
      note='loop-free wrapper, full domain; libc memchr/memrchr as assumed contract whose requires side (n readable bytes) is the C02 obligation at the call site',
      assumptions=['libc memchr / memrchr behave as the C standard / glibc manual says (ghost body in contracts/extmem/memchr_s.spec.c): NULL iff no byte of s[0..n) equals (unsigned char)c, else the first / last such byte'])

J('C.strchr_s', ['C10', 'C02', 'C05', 'C01'], 'C', 'contracts/extstr/strchr_s.spec.c',
  sources=['src/extstr/strchr_s.c'], enforce='_strchr_s_chk', functions=['_strchr_s_chk'], timeout=300, fallback='B.q.strchr_s',
  note='loop-free wrapper, full domain; callee _strnlen_s_chk replaced by the contract proved in A.strnlen_s (restated as ghost body), libc memchr as assumed contract; their requires sides are the C02 obligations at the call sites',
  assumptions=['libc memchr behaves as the C standard says (ghost body in contracts/extstr/strchr_s.spec.c)',
               'the restated _strnlen_s_chk contract (result = smax or index of the first NUL) is the one job A.strnlen_s proves for the real function; the correspondence of the two texts is by inspection'])

J('C.getenv_s', ['C05', 'C08'], 'C', 'contracts/os_getenv_s.spec.c',
  sources=['src/os/getenv_s.c'], enforce='_getenv_s_chk', functions=['_getenv_s_chk'], timeout=300,
  note='loop-free wrapper, full domain; getenv/secure_getenv and strlen assumed, _strcpy_s_chk replaced by the contract proved in A.strcpy_s (restated for a valid call; its requires side is the C05 obligation at the call site)',
  assumptions=['getenv / secure_getenv return NULL or a NUL-terminated string in an object of its own; strlen returns its length (ghost bodies in contracts/os_getenv_s.spec.c)',
               'the restated _strcpy_s_chk contract (valid call => exact copy, slack zeroed, EOK, no handler) is the one job A.strcpy_s.arena proves for the real function; correspondence of the two texts by inspection'])

J('A.strispassword_s', ['C02', 'C10', 'C05', 'C01'], 'A', 'contracts/extstr/strispassword_s.spec.c',
  sources=['src/extstr/strispassword_s.c'], overlays={'src/extstr/strispassword_s.c': 'contracts/extstr/strispassword_s.loops'},
  enforce='_strispassword_s_chk', functions=['_strispassword_s_chk'], sliced=False, timeout=600,
  note='exact-fit object of symbolic size (up to 4 x the password limit), dmax any 64-bit value, object size known or unknown; the only job that reaches the scan loop (B.q.strispassword_s cannot: dmax >= 6 is demanded, its operands have <= 5 elements)')

J('C.strerror_s', ['C05'], 'C', 'contracts/str_strerror_s.spec.c',
  sources=['src/str/strerror_s.c'], enforce='_strerror_s_chk', functions=['_strerror_s_chk', 'strerrorlen_s'], timeout=300,
  note='loop-free wrapper, full domain, real strerrorlen_s and message tables; strerror/strlen assumed, _strcpy_s_chk/_strncpy_s_chk/_strcat_s_chk replaced by the contracts proved in A.strcpy_s/A.strncpy_s/A.strcat_s (restated for a valid destination; their requires sides are the C05 obligations at the call sites)',
  assumptions=['strerror returns a NUL-terminated message in an object of its own, never NULL (glibc); strlen returns its length',
               'the restated _strcpy_s_chk/_strncpy_s_chk/_strcat_s_chk contracts (valid destination => terminated result, EOK, no handler) are what A.strcpy_s.arena / A.strncpy_s.arena / A.strcat_s.arena prove for the real functions; correspondence by inspection'])

for fn, nm in ((1, 'asctime_s'), (2, 'ctime_s')):
    J('C.%s' % nm, ['C05'], 'C', 'contracts/os_time_s.spec.c', defines=['FN=%d' % fn],
      sources=['src/os/%s.c' % nm], enforce='_%s_chk' % nm, functions=['_%s_chk' % nm], timeout=300,
      note='loop-free wrapper, full domain; asctime_r/ctime_r and strlen assumed, _strcpy_s_chk replaced by the contract proved in A.strcpy_s (restated for a valid call; its requires side is the C05 obligation at the call site)',
      assumptions=['asctime_r / ctime_r return NULL or render a NUL-terminated text of fewer than 120 characters into the buffer they are given; strlen returns its length (ghost bodies in contracts/os_time_s.spec.c)',
                   'the restated _strcpy_s_chk contract (valid call => EOK, no handler) is the one job A.strcpy_s.arena proves for the real function; correspondence by inspection'])

for fn, nm in ((1, 'timingsafe_bcmp'), (2, 'timingsafe_memcmp')):
    src = 'src/extmem/%s.c' % nm
    J('A.%s' % nm, ['C19', 'C02', 'C05', 'C01'], 'A', 'contracts/extmem/timingsafe.spec.c',
      defines=['FN=%d' % fn], sources=[src], overlays={src: 'contracts/extmem/%s.loops' % nm},
      instrument=[['--branch', 'verif_branch']],
      enforce='_%s_chk' % nm, functions=['_%s_chk' % nm], sliced=False, timeout=600, fallback='B.%s' % nm,
      note='every n: branch-event counters (goto-instrument --branch) as ghost state in the loop contract, two runs on independent contents',
      assumptions=['C19: data independence is shown on the C abstract machine (branch events of the goto program); compiler-introduced branches and micro-architectural effects are out of scope'])

J('A.bsearch_s', ['C16', 'C02', 'C05', 'C01'], 'A', 'contracts/misc/bsearch_s.spec.c',
  sources=['src/misc/bsearch_s.c'], overlays={'src/misc/bsearch_s.c': 'contracts/misc/bsearch_s.loops'},
  enforce='_bsearch_s_chk', functions=['_bsearch_s_chk'], sliced=False, timeout=600, fallback='B.bsearch_s.sz4',
  note='every nmemb, 4-byte elements, no assumption on the order of the array: comparator arguments in range, a returned pointer is a matching element, termination')

J('A.memcmp_s', ['C10'], 'A', 'contracts/extmem/memcmp_s.spec.c',
  sources=['src/extmem/memcmp_s.c'], overlays={'src/extmem/memcmp_s.c': 'contracts/extmem/memcmp_s.loops'},
  enforce='_memcmp_s_chk', functions=['_memcmp_s_chk'], sliced=False, timeout=600, fallback='B.q.memcmp_s',
  note='every dmax / slen, two separate exact-fit objects of symbolic size, sizes known or unknown to the library')

# ---- engine B: copy / concatenate family against the reference model in harness/copyfam.c
STR_COMMON = ['src/str/safe_str_constraint.c', 'src/str/strnlen_s.c', 'src/ignore_handler_s.c']
WCS_COMMON = STR_COMMON + ['src/wchar/wcsnlen_s.c']
COPYFAM = [
    (1, 'strcpy_s', 'src/str/strcpy_s.c', '_strcpy_s_chk'),
    (2, 'strcat_s', 'src/str/strcat_s.c', '_strcat_s_chk'),
    (3, 'strncpy_s', 'src/str/strncpy_s.c', '_strncpy_s_chk'),
    (4, 'strncat_s', 'src/str/strncat_s.c', '_strncat_s_chk'),
    (5, 'stpcpy_s', 'src/extstr/stpcpy_s.c', '_stpcpy_s_chk'),
    (6, 'stpncpy_s', 'src/extstr/stpncpy_s.c', '_stpncpy_s_chk'),
]
WCOPYFAM = [
    (1, 'wcscpy_s', 'src/wchar/wcscpy_s.c', '_wcscpy_s_chk'),
    (2, 'wcscat_s', 'src/wchar/wcscat_s.c', '_wcscat_s_chk'),
    (3, 'wcsncpy_s', 'src/wchar/wcsncpy_s.c', '_wcsncpy_s_chk'),
    (4, 'wcsncat_s', 'src/wchar/wcsncat_s.c', '_wcsncat_s_chk'),
]
COPY_PROPS = ['C01', 'C02', 'C03', 'C04', 'C05', 'C06', 'C07', 'C08']
for fn, nm, path, sym in COPYFAM:
    for lay in (0, 1):
        J('B.%s.L%d' % (nm, lay), COPY_PROPS, 'B', 'harness/copyfam.c', sources=[path] + STR_COMMON,
          defines=['FN=%d' % fn, 'N=4', 'LAYOUT=%d' % lay], unwind=12, object_bits=10, replay=True,
          functions=[sym], bound='extents <= 4 elements, arena <= 10 elements, layout %s' % ('one arena (all placements)' if lay == 0 else 'separate exact-fit objects'),
          timeout=900, mem_gb=8)
for fn, nm, path, sym in WCOPYFAM:
    for lay in (0, 1):
        J('B.%s.L%d' % (nm, lay), COPY_PROPS, 'B', 'harness/copyfam.c', sources=[path] + WCS_COMMON,
          defines=['FN=%d' % fn, 'N=2', 'WIDE', 'LAYOUT=%d' % lay], unwind=8, object_bits=10, replay=True,
          functions=[sym], bound='extents <= 2 wide chars, arena <= 6, layout %d' % lay,
          stubs=['stubs/memset_model.c'], timeout=900, mem_gb=8)
        J('B.%s.L%d.n3' % (nm, lay), COPY_PROPS, 'B', 'harness/copyfam.c', sources=[path] + WCS_COMMON,
          defines=['FN=%d' % fn, 'N=3', 'WIDE', 'LAYOUT=%d' % lay], unwind=10, object_bits=10, replay=True,
          functions=[sym], bound='extents <= 3 wide chars, arena <= 8, layout %d' % lay,
          stubs=['stubs/memset_model.c'], timeout=3000, mem_gb=10, tiers=('thorough',), thorough_props=['C03', 'C06', 'C07', 'C08'])

# ---- the same family on the far side of the `dmax > 0x20` slack-nulling switch (memset instead of the loop)
SLACK_PROPS = ['C08', 'C01', 'C03', 'C04', 'C06', 'C05']
def slack_variants(sym, long, wide, sl):
    # memset.0 = word loop, memset.1 = byte loop of stubs/memset_model.c (the wide functions only ever
    # pass aligned multiples of 4: the byte loop is unreachable there, shown by its unwinding assertion)
    ms = ['memset.0:43', 'memset.1:%d' % (1 if wide else 43)]
    if not long:
        us = ['%s.*:%d' % (sym, 2 * sl + 4)] + ms     # the library's scan loops need <= 2*SL+2 iterations
        return [{'label': 'below', 'defines': ['DIR=0'], 'unwind': 52, 'unwindset': us},
                {'label': 'above', 'defines': ['DIR=1'], 'unwind': 52, 'unwindset': us}]
    us = ['%s.*:43' % sym] + ms
    return [{'label': 'below.long', 'defines': ['DIR=0', 'LONGSRC'], 'unwind': 90, 'unwindset': us},
            {'label': 'above.long', 'defines': ['DIR=1', 'LONGSRC'], 'unwind': 90, 'unwindset': us}]


for fam, wide in ((COPYFAM, False), (WCOPYFAM, True)):
    for fn, nm, path, sym in fam:
        for long in (False, True):
            sl = 1 if wide else 2
            heavy = long and (wide or 'cat' in nm)
            toobig = long and 'cat' in nm          # 43 unwound iterations x two memset sites x find-end loop: > 16 GB, never finished
            J('B.slack.%s%s' % (nm, '.long' if long else ''), SLACK_PROPS, 'B', 'harness/slackfam.c',
              sources=[path] + (WCS_COMMON if wide else STR_COMMON),
              defines=['FN=%d' % fn, 'SL=%d' % sl] + (['WIDE'] if wide else []), variants=slack_variants(sym, long, wide, sl), unwind=52, replay=True,
              functions=[sym], stubs=['stubs/memset_model.c'], timeout=1800, mem_gb=(16 if heavy else 8),
              quick_props=['C08', 'C01', 'C04'], thorough_props=(['C04', 'C08'] if heavy else None), tiers=(('dev',) if toobig else ('thorough',) if heavy else ('quick', 'thorough')),
              cbmc_flags=['--max-field-sensitivity-array-size', '100'],
              bound='dest of %d elements, dmax %d..%d (beyond the 0x20 switch), %s, dest below / above src at fixed offsets; all contents symbolic'
                    % (0x20 + 2 * sl + 4, 0x20 + 2 * sl + 2, 0x20 + 2 * sl + 4,
                       'a source of as many non-zero elements that cannot fit (error path)' if long else 'strings <= %d elements, slen <= %d' % (sl, sl + 1)))

# ---- single-loop dest-only writers against reference semantics (also the replay fallback of A.<fn>)
for fn, nm in ((10, 'strzero_s'), (11, 'strset_s'), (12, 'strtolowercase_s'), (13, 'strtouppercase_s'), (14, 'strnterminate_s'), (15, 'strnset_s')):
    J('B.w.%s' % nm, ['C01', 'C02', 'C03', 'C05', 'C06', 'C08'], 'B', 'harness/scanfam.c', sources=['src/extstr/%s.c' % nm] + STR_COMMON,
      defines=['FN=%d' % fn], unwind=8, object_bits=10, replay=True, functions=['_%s_chk' % nm], timeout=600,
      bound='exact-fit dest object of 1..5 characters, all contents; dmax, value, n symbolic; object size known or unknown')

# ---- C12 / C13: census of static-lifetime storage over all library translation units
import census  # noqa: E402
J('S.static_census', ['C12', 'C13'], 'C', 'lib/census.py', special=census.census_obligations,
  functions=['<all 142 library translation units>'], min_obl=1,
  note='exact symbol-table census (goto-cc) of static-lifetime, non-const storage + assignment/address-taken scan of the goto programs',
  assumptions=['census: a static that is neither assigned nor address-taken in its translation unit cannot be written by the library (file-local linkage)'])

# ---- C13 (and the dispatch half of C05): handler registration / dispatch, loop-free, full domain
HFN = {1: 'set_str_constraint_handler_s', 2: 'thrd_set_str_constraint_handler_s', 3: 'set_mem_constraint_handler_s',
       4: 'thrd_set_mem_constraint_handler_s', 5: 'invoke_safe_str_constraint_handler', 6: 'invoke_safe_mem_constraint_handler'}
for op, fn in HFN.items():
    J('C.handlers.%s' % fn, ['C13'] + (['C05'] if op >= 5 else []), 'C', 'contracts/handlers/handlers.spec.c',
      sources=['src/str/strnlen_s.c'], defines=['OP=%d' % op], enforce=fn, functions=[fn], frame_prop=['C13'],
      timeout=300, note='real safe_str_constraint.c / safe_mem_constraint.c #included unmodified; arbitrary pre-state of all four cells')

# ---- word-unrolled primitives (mem_primitives_lib.c): bounded by enumeration (DESIGN section 1)
PRIM = 'src/mem/mem_primitives_lib.c'


def move_variants(das, offs, lens):
    out = []
    for off in offs:
        for da in das:
            for ln in lens:
                bufsz = 8 + 8 + (ln + abs(off) + 1) + 8
                out.append({'label': 'off%+d.da%d.len%d' % (off, da, ln),
                            'defines': ['SINGLE', 'OFF=%d' % off, 'DA=%d' % da, 'LEN=%d' % ln],
                            'unwind': bufsz + 2,
                            'unwindset': ['mem_prim_move.%d:%d' % (i, ln + 3) for i in range(6)]})
    return out


def set_variants(das, lens):
    out = []
    for da in das:
        for ln in lens:
            bufsz = 8 + 8 + (ln + 1) + 8
            out.append({'label': 'da%d.len%d' % (da, ln), 'defines': ['SINGLE', 'DA=%d' % da, 'LEN=%d' % ln],
                        'unwind': bufsz + 2,
                        'unwindset': ['mem_prim_set.0:10', 'mem_prim_set.1:%d' % (ln // 128 + 3), 'mem_prim_set.2:10']})
    return out


PRIM_PROPS = ['C01', 'C06', 'C07', 'C18']
Q_LENS = [1, 2, 3, 5, 8, 9, 17]
J('B.mem_prim_move.q', PRIM_PROPS, 'B', 'harness/memprim.c', sources=[PRIM], defines=['FN=4'], replay=True,
  variants=move_variants([0, 1, 3], [1, 8, 64, -1, -8], Q_LENS), functions=['mem_prim_move'], no_std_checks=False, quick_props=['C01', 'C06', 'C07'],
  bound='enumerated: dest alignment {0,1,3}, src-dest in {1,8,64,-1,-8}, len in %s; contents symbolic' % Q_LENS,
  timeout=600)
FULL_OFFS = [1, 3, 8, 9, 64, -1, -3, -8, -9, -64]
FULL_LENS = [1, 2, 3, 4, 5, 7, 8, 9, 15, 16, 17, 24, 25]
J('B.mem_prim_move.full', ['C07', 'C06'], 'B', 'harness/memprim.c', sources=[PRIM], defines=['FN=4'], replay=True,
  variants=move_variants([0, 1, 3, 7], FULL_OFFS, FULL_LENS),
  functions=['mem_prim_move'], bound='enumerated: dest alignment {0,1,3,7}, src-dest in +-{1,3,8,9,64}, len in %s; contents symbolic '
  '(the 3328-variant enumeration - every alignment, +-{1,2,3,7,8,9,16,64}, len 1..26 - passed once in 53 min and was cut down for run time)' % FULL_LENS,
  timeout=900, tiers=('thorough',))
J('B.mem_prim_set.q', PRIM_PROPS, 'B', 'harness/memprim.c', sources=[PRIM], defines=['FN=1'], replay=True,
  variants=set_variants([0, 1, 3, 7], [0, 1, 2, 7, 8, 9, 16, 17, 31, 64, 65, 130, 137, 264]), object_bits=10, functions=['mem_prim_set'], quick_props=['C06', 'C18'],
  bound='enumerated: dest alignment {0,1,3,7}, len in {0,1,2,7,8,9,16,17,31,64,65,130,137,264}; fill value and contents symbolic',
  timeout=600)
SET_FULL_LENS = list(range(0, 18)) + [31, 32, 33, 63, 64, 65, 127, 128, 129, 130, 255, 256, 257, 258, 300]
J('B.mem_prim_set.full', ['C18', 'C06'], 'B', 'harness/memprim.c', sources=[PRIM], defines=['FN=1'], replay=True,
  variants=set_variants([0, 1, 3, 4, 7], SET_FULL_LENS), object_bits=10,
  functions=['mem_prim_set'], bound='enumerated: dest alignment {0,1,3,4,7}, len in %s '
  '(the 664-variant enumeration - every alignment, len 0..40, 120..139, 248..267, 300, 391 - passed once in 22 min and was cut down for run time)' % SET_FULL_LENS,
  timeout=900, tiers=('thorough',))
for fn, nm in ((2, 'mem_prim_set16'), (3, 'mem_prim_set32')):
    for sfx, lmax, tiers, qp in (('.q', 18, ('quick', 'thorough'), ['C06', 'C18']), ('', 40, ('thorough',), None)):
        J('B.%s%s' % (nm, sfx), (PRIM_PROPS if sfx else ['C18', 'C06']), 'B', 'harness/memprim.c', sources=[PRIM], defines=['FN=%d' % fn, 'LMAX=%d' % lmax],
          unwind=8 + 8 + (lmax + 2) * 4 + 8 + 4, cbmc_flags=['--max-field-sensitivity-array-size', '4000'], replay=True, object_bits=10,
          functions=[nm], bound='enumerated: every element alignment, len 0..%d elements' % lmax, timeout=900, tiers=tiers, quick_props=qp)
for fn, nm in ((5, 'mem_prim_move8'), (6, 'mem_prim_move16'), (7, 'mem_prim_move32')):
    for sfx, lmax, offs, tiers, qp in (('.q', 18, (1, 3, 17, -1, -3, -17), ('quick', 'thorough'), ['C06', 'C07']),
                                       ('', 36, (1, 3, 17, 64, -1, -3, -17, -64), ('thorough',), None)):
        J('B.%s%s' % (nm, sfx), (PRIM_PROPS if sfx else ['C07', 'C06']), 'B', 'harness/memprim.c', sources=[PRIM], defines=['FN=%d' % fn, 'LMAX=%d' % lmax],
          replay=True, functions=[nm], timeout=900, tiers=tiers, quick_props=qp,
          variants=[{'label': 'off%+d' % off, 'defines': ['OFF=%d' % off],
                     'unwind': 8 + 8 + (lmax + abs(off) + 2) * 4 + 8 + 4} for off in offs],
          cbmc_flags=['--max-field-sensitivity-array-size', '4000'],
          bound='enumerated: every element alignment, len 1..%d elements, src-dest in %s elements' % (lmax, list(offs)))

# ---- engine A: the same contracts ENFORCED on the element-wise primitives (loop contracts, unbounded)
for fn, nm in ((2, 'mem_prim_set16'), (3, 'mem_prim_set32'), (5, 'mem_prim_move8'), (6, 'mem_prim_move16'), (7, 'mem_prim_move32')):
    J('A.%s' % nm, ['C01', 'C06', 'C18'] if fn <= 3 else ['C01', 'C02', 'C06', 'C07'], 'A', 'contracts/mem/prims.spec.c',
      sources=[PRIM], overlays={PRIM: 'contracts/mem/prims.loops'}, defines=['FN=%d' % fn],
      enforce=nm, functions=[nm], timeout=900, mem_gb=6, tiers=('dev',),
      note='contract of include/prim_contracts.h enforced on the real body; len any uint32_t, one arena, every element-aligned placement of dest and src')

# ---- memory wrappers, loop-free, primitives replaced by their contracts (engine C)
MEM_COMMON = ['src/mem/safe_mem_constraint.c', 'src/ignore_handler_s.c']
PRIMS = ['mem_prim_set', 'mem_prim_set16', 'mem_prim_set32', 'mem_prim_move', 'mem_prim_move8', 'mem_prim_move16', 'mem_prim_move32']
MEMFAM = [
    (1, 'memset_s', 'src/mem/memset_s.c'), (2, 'memset16_s', 'src/extmem/memset16_s.c'), (3, 'memset32_s', 'src/extmem/memset32_s.c'),
    (4, 'memzero_s', 'src/extmem/memzero_s.c'), (5, 'memzero16_s', 'src/extmem/memzero16_s.c'), (6, 'memzero32_s', 'src/extmem/memzero32_s.c'),
    (7, 'memcpy_s', 'src/mem/memcpy_s.c'), (8, 'memmove_s', 'src/mem/memmove_s.c'),
    (9, 'memcpy16_s', 'src/extmem/memcpy16_s.c'), (10, 'memmove16_s', 'src/extmem/memmove16_s.c'),
    (11, 'memcpy32_s', 'src/extmem/memcpy32_s.c'), (12, 'memmove32_s', 'src/extmem/memmove32_s.c'),
    (13, 'wmemcpy_s', 'src/wchar/wmemcpy_s.c'), (14, 'wmemmove_s', 'src/wchar/wmemmove_s.c'),
]
for fn, nm, path in MEMFAM:
    props = ['C01', 'C02', 'C05', 'C06'] + (['C18'] if fn <= 6 else ['C04', 'C07'])
    J('C.%s' % nm, props, 'C', 'harness/memfam.c', sources=[path, PRIM] + MEM_COMMON, defines=['FN=%d' % fn],
      replace=PRIMS, replay=True, functions=['_%s_chk' % nm], timeout=900, mem_gb=8, trace_defines=['ASZ_LOG=12'],
      quick_props=(None if nm in ('memset_s', 'memcpy_s', 'memmove_s') else [p for p in props if p not in ('C01', 'C02')]),
      note='loop-free wrapper, all sizes symbolic (64-bit), arena of symbolic size <= 2^30; mem_prim_* replaced by contracts (include/prim_contracts.h) which are checked bounded by B.mem_prim_*',
      assumptions=['callee contracts of mem_prim_set*/mem_prim_move* (prim_contracts.h) are checked only bounded, by enumeration (jobs B.mem_prim_*)',
                   'C18: compilers do not elide stores that precede a full memory barrier (or are made by explicit_bzero); the barrier intrinsic is given a ghost body'])

# ---- C19: timingsafe comparisons
for fn, nm in ((1, 'timingsafe_bcmp'), (2, 'timingsafe_memcmp')):
    J('B.%s' % nm, ['C19', 'C02', 'C10'], 'B', 'harness/timingsafe.c', sources=['src/extmem/%s.c' % nm] + MEM_COMMON,
      defines=['FN=%d' % fn, 'NMAX=6'], unwind=8, instrument=[['--branch', 'verif_branch']], replay=True,
      functions=['_%s_chk' % nm], bound='n <= 6 bytes, all contents of both regions (two independent runs)', timeout=600,
      note='self-composition over mechanically inserted branch events (goto-instrument --branch)',
      assumptions=['C19: data independence is shown on the C abstract machine (branch events of the goto program); compiler-introduced branches and micro-architectural effects are out of scope'])

# ---- query functions (C10 / C02 / C05): bounded against reference loops
QCOMMON = STR_COMMON + ['src/mem/safe_mem_constraint.c', 'src/wchar/wcsnlen_s.c']
QFAM = [
    (1, 'strcmp_s', ['src/extstr/strcmp_s.c']), (2, 'strcasecmp_s', ['src/extstr/strcasecmp_s.c']), (3, 'strcmpfld_s', ['src/extstr/strcmpfld_s.c']),
    (4, 'strfirstdiff_s', ['src/extstr/strfirstdiff_s.c']), (5, 'strfirstsame_s', ['src/extstr/strfirstsame_s.c']),
    (6, 'strlastdiff_s', ['src/extstr/strlastdiff_s.c']), (7, 'strlastsame_s', ['src/extstr/strlastsame_s.c']),
    (8, 'strprefix_s', ['src/extstr/strprefix_s.c']),
    (10, 'strstr_s', ['src/extstr/strstr_s.c']), (11, 'strcasestr_s', ['src/extstr/strcasestr_s.c']), (12, 'strpbrk_s', ['src/extstr/strpbrk_s.c']),
    (13, 'strspn_s', ['src/extstr/strspn_s.c']), (14, 'strcspn_s', ['src/extstr/strcspn_s.c']),
    (20, 'strfirstchar_s', ['src/extstr/strfirstchar_s.c']), (21, 'strlastchar_s', ['src/extstr/strlastchar_s.c']),
    (22, 'strchr_s', ['src/extstr/strchr_s.c', 'src/extmem/memchr_s.c']), (23, 'strrchr_s', ['src/extstr/strrchr_s.c', 'src/extmem/memrchr_s.c']),
    (30, 'strisalphanumeric_s', ['src/extstr/strisalphanumeric_s.c']), (31, 'strisascii_s', ['src/extstr/strisascii_s.c']),
    (32, 'strisdigit_s', ['src/extstr/strisdigit_s.c']), (33, 'strishex_s', ['src/extstr/strishex_s.c']),
    (34, 'strislowercase_s', ['src/extstr/strislowercase_s.c']), (35, 'strismixedcase_s', ['src/extstr/strismixedcase_s.c']),
    (36, 'strispassword_s', ['src/extstr/strispassword_s.c']), (37, 'strisuppercase_s', ['src/extstr/strisuppercase_s.c']),
    (40, 'memcmp_s', ['src/extmem/memcmp_s.c']), (44, 'memchr_s', ['src/extmem/memchr_s.c']), (45, 'memrchr_s', ['src/extmem/memrchr_s.c']),
    (50, 'strnlen_s', []),
    (60, 'wcscmp_s', ['src/extwchar/wcscmp_s.c']), (61, 'wcsncmp_s', ['src/extwchar/wcsncmp_s.c']), (62, 'wcsstr_s', ['src/extwchar/wcsstr_s.c']),
    (63, 'wmemcmp_s', ['src/extwchar/wmemcmp_s.c']), (64, 'wcsnlen_s', []),
]
for fn, nm, files in QFAM:
    J('B.q.%s' % nm, ['C10', 'C02', 'C05', 'C01'], 'B', 'harness/queryfam.c', sources=files + QCOMMON,
      defines=['FN=%d' % fn, 'N=%d' % (3 if fn >= 60 else 4), '__NO_CTYPE'], unwind=10, object_bits=10, replay=True, functions=['_%s_chk' % nm],
      bound='operands of at most %d elements (exact-fit objects), all contents / sizes / flags' % (4 if fn >= 60 else 5), timeout=900,
      stubs=['stubs/libc_query.c'])

# ---- C14: tokenizer call sequences
for nm, path, wide in (('strtok_s', 'src/str/strtok_s.c', False), ('wcstok_s', 'src/wchar/wcstok_s.c', True)):
    J('B.%s.seq' % nm, ['C14', 'C01', 'C02', 'C05'], 'B', 'harness/tokfam.c', sources=[path] + WCS_COMMON,
      defines=(['N=2', 'DL=2', 'K=4', 'WIDE'] if wide else ['N=3', 'DL=2', 'K=5']), unwind=8, object_bits=10, replay=True, quick_props=['C14'],
      functions=['_%s_chk' % nm], timeout=1200, tiers=('quick',),
      bound='strings of at most 4 elements, two delimiter sets of <= 2 characters chosen per call, 5 calls')
    J('B.%s.seq5' % nm, ['C14', 'C01', 'C02', 'C05'], 'B', 'harness/tokfam.c', sources=[path] + WCS_COMMON,
      defines=['N=4', 'DL=2'] + (['WIDE'] if wide else []), unwind=9, object_bits=10, replay=True,
      functions=['_%s_chk' % nm], timeout=3000, tiers=('thorough',), mem_gb=(16 if wide else 6), thorough_props=['C14', 'C02'],
      bound='strings of at most 5 elements, two delimiter sets of <= 2 characters chosen per call, 7 calls')
    J('B.%s.delim16' % nm, ['C14', 'C02'], 'B', 'harness/tokfam.c', sources=[path] + WCS_COMMON,
      defines=['N=2', 'DL=16', 'K=1'] + (['WIDE'] if wide else []), unwind=20, object_bits=10, replay=True, quick_props=['C14'],
      functions=['_%s_chk' % nm], timeout=(3000 if wide else 1200), tiers=(('thorough',) if wide else ('quick', 'thorough')), mem_gb=(16 if wide else 6),
      bound='strings of at most 3 elements, delimiter sets of up to 16 characters (exactly the STRTOK_DELIM_MAX_LEN limit), 1 call')
    J('B.%s.delim17' % nm, ['C14', 'C02'], 'B', 'harness/tokfam.c', sources=[path] + WCS_COMMON,
      defines=['N=1', 'DL=17', 'K=2'] + (['WIDE'] if wide else []), unwind=21, object_bits=10, replay=True,
      functions=['_%s_chk' % nm], timeout=3000, tiers=('thorough',), mem_gb=(16 if wide else 6), thorough_props=['C14', 'C02'],
      bound='strings of at most 2 elements, delimiter sets of up to 17 characters (the STRTOK_DELIM_MAX_LEN limit), 2 calls')

# ---- C16: qsort_s / bsearch_s
SORT_SRC = ['src/misc/qsort_s.c', 'src/misc/bsearch_s.c'] + STR_COMMON + ['src/mem/safe_mem_constraint.c']
QS_COMMON = STR_COMMON + ['src/mem/safe_mem_constraint.c']
for w, tiers in ((4, ('quick', 'thorough')), (257, ('quick', 'thorough')), (300, ('thorough',)), (520, ('thorough',))):
    J('B.qsort_s.cycle.w%d' % w, ['C16', 'C01', 'C12'], 'B', 'contracts/misc/qsort_parts.spec.c', sources=QS_COMMON,
      defines=['PART=1', 'W=%d' % w], enforce='cycle', unwind=6, functions=['cycle'], timeout=900, tiers=tiers, mem_gb=16,
      frame_prop=['C16', 'C01', 'C12'], cbmc_flags=['--max-field-sensitivity-array-size', '4096'],
      bound='n <= 3 (n <= 2 for widths above 64) elements of width %d bytes in arbitrary slot order (the copy is chunked in 256-byte pieces), contents symbolic' % w)
J('C.qsort_s.shl_shr', ['C16'], 'C', 'contracts/misc/qsort_parts.spec.c', sources=QS_COMMON, defines=['PART=2'],
  enforce='shl', functions=['shl'], timeout=600, note='128-bit shift helper, every shift amount 1..127 except 64 (what pntz can return), all 2^128 values')
J('C.qsort_s.shr', ['C16'], 'C', 'contracts/misc/qsort_parts.spec.c', sources=QS_COMMON, defines=['PART=4'],
  enforce='shr', functions=['shr'], timeout=600)
J('C.qsort_s.pntz', ['C16'], 'C', 'contracts/misc/qsort_parts.spec.c', sources=QS_COMMON, defines=['PART=3'],
  enforce='pntz', functions=['pntz'], timeout=600)
for sz, nm in ((4, 5), (1, 6)):
    J('B.bsearch_s.sz%d' % sz, ['C16', 'C10', 'C02'], 'B', 'harness/sortfam.c', sources=SORT_SRC, defines=['FN=2', 'SZ=%d' % sz, 'NM=%d' % nm],
      unwind=nm * sz + 20, object_bits=10, replay=True, functions=['_bsearch_s_chk'], timeout=900,
      bound='sorted arrays of nmemb <= %d, element size %d, all keys' % (nm, sz))

# ---- C17: arithmetic clauses of normalization / case folding, full domain
UNI_SRC = ['src/str/strnlen_s.c', 'src/wchar/wcsnlen_s.c', 'src/extwchar/towctrans.c']
J('C.unicode.composite_hangul', ['C17'], 'C', 'contracts/extwchar/unicode.spec.c', sources=UNI_SRC + ['src/extwchar/towfc_s.c'], defines=['PART=1'],
  functions=['_composite_cp'], timeout=900, unwind=3, object_bits=12,
  note='all 2^32 x 2^32 (cp, cp2) with a Hangul L / syllable or an out-of-range value on the left')
J('C.unicode.decomp_hangul', ['C17'], 'C', 'contracts/extwchar/unicode.spec.c', sources=UNI_SRC + ['src/extwchar/towfc_s.c'], defines=['PART=2'],
  functions=['_decomp_s', '_decomp_hangul_s', '_composite_cp'], timeout=900, unwind=4, object_bits=12,
  note='all 11172 Hangul syllables, symbolic; round trip through _composite_cp')
J('C.unicode.iswfc_towfc', ['C17', 'C01'], 'C', 'contracts/extwchar/unicode.spec.c', sources=['src/str/strnlen_s.c'], defines=['PART=3', '__NO_CTYPE'],
  functions=['iswfc', '_towfc_s_chk', '_towfc_single'], timeout=900, unwind=120,
  note='all 2^32 code points; loops over the constant folding tables are unwound to their constant length',
  assumptions=['towlower/iswupper (libc / towctrans.c) results are taken as they are; only the count agreement is checked'])
J('C.unicode.decomp_index', ['C17', 'C01', 'C02'], 'C', 'contracts/extwchar/unicode.spec.c', sources=UNI_SRC + ['src/extwchar/towfc_s.c'], defines=['PART=4'],
  functions=['_decomp_s', '_decomp_canonical_s'], timeout=1800, unwind=24, mem_gb=12, tiers=('thorough',), object_bits=14,
  note='every cp <= U+10FFFF, every dmax 1..20: table indices in bounds, writes inside dmax')

# ---- C15 (wrapper logic): converters with the libc delegates as assumed contracts
CONV = [(1, 'mbstowcs_s'), (2, 'wcstombs_s'), (3, 'mbsrtowcs_s'), (4, 'wcsrtombs_s'), (5, 'wcrtomb_s'), (6, 'wctomb_s')]
for fn, nm in CONV:
    wide_dest = fn in (1, 3)
    J(('B' if wide_dest else 'C') + '.conv.%s' % nm, ['C15', 'C01', 'C03', 'C04', 'C05', 'C06', 'C08'], 'B' if wide_dest else 'C', 'harness/convfam.c',
      sources=['src/wchar/%s.c' % nm] + WCS_COMMON, defines=['FN=%d' % fn] + (['SMALL=5'] if wide_dest else []), functions=['_%s_chk' % nm], timeout=900,
      replay=False, unwind=(26 if wide_dest else 6), stubs=(['stubs/memset_model.c'] if wide_dest else []), object_bits=10,
      bound=('dest object of 5 wide characters (declared extent 1..5), source strings <= 5' if wide_dest else None),
      note='wrapper logic; libc converter replaced by an assumed contract (ghost body in harness/convfam.c): arbitrary admissible count and characters',
      assumptions=['C15: the libc converters (mbstowcs, wcstombs, mbsrtowcs, wcsrtombs, wcrtomb) behave as the C standard says (count <= n, (size_t)-1 and EILSEQ on error, errno untouched on success); their conversion tables, locale handling and round trips are not verified'])

# ---- C09: the delegating formatted-I/O entry points must not let a %n directive reach libc
FMT = [(1, 'sscanf_s', 'src/io/sscanf_s.c'), (2, 'vsscanf_s', 'src/io/vsscanf_s.c'), (3, 'fscanf_s', 'src/io/fscanf_s.c'),
       (4, 'vfscanf_s', 'src/io/vfscanf_s.c'), (5, 'scanf_s', 'src/io/scanf_s.c'), (6, 'vscanf_s', 'src/io/vscanf_s.c'),
       (7, 'swscanf_s', 'src/wchar/swscanf_s.c'), (8, 'vswscanf_s', 'src/wchar/vswscanf_s.c'), (9, 'fwscanf_s', 'src/wchar/fwscanf_s.c'),
       (10, 'vfwscanf_s', 'src/wchar/vfwscanf_s.c'), (11, 'wscanf_s', 'src/wchar/wscanf_s.c'), (12, 'vwscanf_s', 'src/wchar/vwscanf_s.c'),
       (13, 'swprintf_s', 'src/wchar/swprintf_s.c'), (14, 'vswprintf_s', 'src/wchar/vswprintf_s.c'), (15, 'snwprintf_s', 'src/wchar/snwprintf_s.c'),
       (16, 'vsnwprintf_s', 'src/wchar/vsnwprintf_s.c'), (17, 'fwprintf_s', 'src/wchar/fwprintf_s.c'), (18, 'vfwprintf_s', 'src/wchar/vfwprintf_s.c'),
       (19, 'wprintf_s', 'src/wchar/wprintf_s.c'), (20, 'vwprintf_s', 'src/wchar/vwprintf_s.c')]
for fn, nm, path in FMT:
    J('B.fmt.%s' % nm, ['C09', 'C05'], 'B', 'harness/fmtfam.c', sources=[path] + WCS_COMMON, defines=['FN=%d' % fn, 'FL=5'],
      unwind=24, object_bits=10, replay=False, functions=[nm], timeout=900, stubs=['stubs/memset_model.c'] if fn >= 13 else [],
      bound='every format string of at most 5 characters over the alphabet {% n l h 5 * . d a}',
      assumptions=['C09: libc formatter (vsscanf/vfscanf/vscanf/vswscanf/vfwscanf/vwscanf/vswprintf/vfwprintf/vwprintf) is an assumed contract: it executes a %n conversion iff the format contains one according to the C directive grammar'])

# ---- narrow printf engine through _snprintf_s_chk: one concrete format per variant (C11, C03, C04, C08, C09)
PF_SRC = ['src/str/sprintf_s.c', 'src/str/snprintf_s.c', 'src/str/vsprintf_s.c', 'src/str/vsnprintf_s.c', 'src/wchar/wcstombs_s.c', 'src/wchar/wctomb_s.c'] + WCS_COMMON + ['src/mem/safe_mem_constraint.c']
PF_FORMATS = [
    ('s', '%s', 'IN.s[0]'), ('p2s', '%.2s', 'IN.s[0]'), ('w5s', '%5s', 'IN.s[0]'), ('lw4s', '%-4s|', 'IN.s[0]'),
    ('d', '%d', 'IN.iv[0]'), ('w5d', '%5d', 'IN.iv[0]'), ('lw5d', '%-5d|', 'IN.iv[0]'), ('z5d', '%05d', 'IN.iv[0]'), ('p3d', '%.3d', 'IN.iv[0]'),
    ('x', '%x', 'IN.iv[0]'), ('X', '%X', 'IN.iv[0]'), ('u', '%u', 'IN.iv[0]'), ('c', '%c', '(int)IN.c'), ('w3c', '%3c', '(int)IN.c'), ('pct', 'a%%b', None),
    ('s_d', '%s=%d', 'IN.s[0],IN.iv[0]'), ('p3d_d', '%.3d|%d', 'IN.iv[0],IN.iv[1]'), ('p1s_s', '%.1s%s', 'IN.s[0],IN.s[1]'),
    ('plusd', '%+d', 'IN.iv[0]'), ('spd', '% d', 'IN.iv[0]'), ('hhd', '%hhd', 'IN.iv[0]'), ('ld', '%ld', '(long)IN.iv[0]'),
    ('p4s_w5s', '%.4s|%5s', 'IN.s[0],IN.s[1]'), ('x_u', '%.8x-%u', 'IN.iv[0],IN.iv[1]'),
    ('n', '%n', None), ('ln', '%ln', None), ('hhn', '%hhn', None), ('w5n', '%5n', None), ('pctpctn', '%%%n', None),
    ('d_n', 'ab%d%n', None), ('minusn', '%-n', None), ('lln', '%lln', None), ('zn', '%zn', None), ('pctn_n', '%%n%n', None),
]
QUICK_PF = {'s', 'p2s', 'lw4s', 'd', 'z5d', 'p3d', 'x', 'c', 'pct', 's_d', 'p3d_d', 'p1s_s', 'n', 'ln', 'hhn', 'w5n', 'pctpctn', 'd_n'}
J('B.printf.engine.q', ['C11', 'C03', 'C04', 'C08', 'C09', 'C05', 'C01'], 'B', 'harness/printffam.c', sources=PF_SRC, replay=True, unwind=70, object_bits=10, stubs=['stubs/libc_query.c'], quick_props=['C11', 'C03', 'C09'],
  variants=[{'label': lab, 'defines': ['FMT="%s"' % f] + (['ARGS=%s' % a] if a else [])} for lab, f, a in PF_FORMATS if lab in QUICK_PF] +
           [{'label': 'sn.' + lab, 'defines': ['ENTRY_SNPRINTF', 'FMT="%s"' % f, 'ARGS=%s' % a]} for lab, f, a in PF_FORMATS if lab in ('s', 'd', 's_d')],
  functions=['_sprintf_s_chk', '_vsprintf_s_chk', '_vsnprintf_s_chk', 'safec_vsnprintf_s', 'safec_out_buffer', 'safec_ntoa_long', 'safec_ntoa_format', 'safec_out_rev'],
  bound='one concrete format per run (%d formats), ints |v| <= 99999, strings <= 4 chars, dmax 1..12' % len(QUICK_PF), timeout=1200, tiers=('quick',))
J('B.printf.engine.full', ['C11', 'C03', 'C04', 'C08', 'C09', 'C05', 'C01'], 'B', 'harness/printffam.c', sources=PF_SRC, replay=True, unwind=70, object_bits=10, stubs=['stubs/libc_query.c'],
  variants=[{'label': lab, 'defines': ['FMT="%s"' % f] + (['ARGS=%s' % a] if a else [])} for lab, f, a in PF_FORMATS],
  functions=['_sprintf_s_chk', '_vsprintf_s_chk', '_vsnprintf_s_chk', 'safec_vsnprintf_s', 'safec_out_buffer', 'safec_ntoa_long', 'safec_ntoa_format', 'safec_out_rev'],
  bound='one concrete format per run (%d formats), ints |v| <= 99999, strings <= 4 chars, dmax 1..12' % len(PF_FORMATS), timeout=1800, tiers=('thorough',))

# ---- C20: allocation failure at every position, no leak
ALLOC_FLAGS = ['--malloc-may-fail', '--malloc-fail-null', '--memory-leak-check']
ALLOC_KW = dict(all_props=['C20'])
J('B.alloc.printf_ls', ['C20'], 'B', 'harness/allocfam.c', sources=PF_SRC, replay=False, all_props=['C20'], unwind=70, object_bits=10, cbmc_flags=ALLOC_FLAGS,
  variants=[{'label': lab, 'defines': ['FN=1', 'FMT="%s"' % f]} for lab, f in (('ls', '%ls'), ('lw6ls', '%-6ls|'), ('w6ls', '%6ls'), ('p2ls', '%.2ls'))],
  functions=['safec_vsnprintf_s (%ls path)', '_wcstombs_s_chk'], stubs=['stubs/libc_query.c'], timeout=1200,
  bound='wide string of 3 characters, dmax 1..16, four %ls formats; every subset of the allocations fails; wcstombs assumed contract may fail',
  assumptions=['C20: cbmc malloc model with --malloc-may-fail --malloc-fail-null (any subset of allocations fails)'])
J('B.alloc.printf_L', ['C20'], 'B', 'harness/allocfam.c', sources=PF_SRC, replay=False, all_props=['C20'], unwind=70, object_bits=10, cbmc_flags=ALLOC_FLAGS,
  variants=[{'label': lab, 'defines': ['FN=2', 'FMT="%s"' % f]} for lab, f in (('Lf', '%Lf|'), ('Le', '%Le|'), ('Lg', '%Lg|'), ('La', '%La|'))],
  functions=['safec_vsnprintf_s (%L format copy paths)'], stubs=['stubs/libc_query.c'], timeout=1200,
  bound='one long double directive followed by a literal (the format-copy path), dmax 1..16')
for fn, nm, path in ((3, 'swprintf_s', 'src/wchar/swprintf_s.c'), (4, 'vswprintf_s', 'src/wchar/vswprintf_s.c'),
                     (5, 'snwprintf_s', 'src/wchar/snwprintf_s.c'), (6, 'vsnwprintf_s', 'src/wchar/vsnwprintf_s.c')):
    J('B.alloc.%s' % nm, ['C20'], 'B', 'harness/allocfam.c', sources=[path] + WCS_COMMON, defines=['FN=%d' % fn], replay=False, unwind=24, all_props=['C20'],
      object_bits=10, cbmc_flags=ALLOC_FLAGS, functions=['_%s_chk' % nm], timeout=900, stubs=['stubs/libc_query.c'],
      bound='dmax = 512 (the heap-allocated no-space probe), libc vswprintf assumed contract returning -1 or a count')

# ---- wide printf wrappers (buffer variants) against an assumed vswprintf contract
for fn, nm, path in ((1, 'swprintf_s', 'src/wchar/swprintf_s.c'), (2, 'vswprintf_s', 'src/wchar/vswprintf_s.c'),
                     (3, 'snwprintf_s', 'src/wchar/snwprintf_s.c'), (4, 'vsnwprintf_s', 'src/wchar/vsnwprintf_s.c')):
    J('B.wprintf.%s' % nm, ['C04', 'C03', 'C05', 'C08', 'C01'], 'B', 'harness/wprintffam.c', sources=[path] + WCS_COMMON, defines=['FN=%d' % fn],
      replay=False, unwind=24, object_bits=10, functions=['_%s_chk' % nm], timeout=900, stubs=['stubs/libc_query.c', 'stubs/memset_model.c'],
      bound='dest of 5 wide characters, dmax 1..5; libc vswprintf assumed contract (each call may fail independently)',
      assumptions=['libc vswprintf is an assumed contract: count < n and terminated, or -1'])

# ---- engine A: wcsncat_s (all eight loops under contract)
J('A.wcsncat_s.arena', ['C01', 'C02', 'C03', 'C04', 'C05', 'C08'], 'A', 'contracts/wchar/wcsncat_s.spec.c',
  sources=['src/wchar/wcsncat_s.c'], overlays={'src/wchar/wcsncat_s.c': 'contracts/wchar/wcsncat_s.loops'},
  enforce='_wcsncat_s_chk', functions=['_wcsncat_s_chk', 'handle_werror'], sliced=True, timeout=1500, mem_gb=8, tiers=('dev',),
  note='one arena, disjoint extents, both pointer orders; sizes symbolic up to RSIZE_MAX_WSTR; memset by ghost-index contract',
  assumptions=['A.wcsncat_s: memset(s, 0, n) is modelled by havoc of the region plus "the observed ghost elements are zero"'])

BY_NAME = {j.name: j for j in JOBS}
