"""census.py - exact census of static-lifetime storage of the library, from the goto symbol
tables of ALL library translation units (DESIGN.md C12 step 1, C13 storage-class obligation).

Every symbol with isStaticLifetime, declared in a file under /repo/src, that is not a function
and whose type is not const-qualified is *mutable static storage*.  The only ones the property
allows are the four constraint-handler cells."""
import concurrent.futures as cf
import glob
import json
import os
import subprocess
import tempfile

ALLOWED = {
    'str_handler': ('src/str/safe_str_constraint.c', False),
    'thrd_str_handler': ('src/str/safe_str_constraint.c', True),
    'mem_handler': ('src/mem/safe_mem_constraint.c', False),
    'thrd_mem_handler': ('src/mem/safe_mem_constraint.c', True),
}


def library_sources(repo):
    files = sorted(glob.glob(repo + '/src/*.c') + glob.glob(repo + '/src/*/*.c'))
    return [f for f in files if '/slkm/' not in f]


def _is_const(t):
    """const-qualified object type (arrays: element type)."""
    if not isinstance(t, dict):
        return False
    ns = t.get('namedSub', {})
    if '#constant' in ns:
        return True
    if t.get('id') == 'array':
        sub = t.get('sub', [])
        return bool(sub) and _is_const(sub[0])
    return False


def _one(args):
    repo, f, tmpd = args
    out = os.path.join(tmpd, f.replace('/', '_') + '.gb')
    p = subprocess.run(['goto-cc', '-I' + repo, '-I' + repo + '/include', '-I' + repo + '/src',
                        '-DHAVE_CONFIG_H', '-c', f, '-o', out], capture_output=True, text=True)
    if p.returncode:
        return f, None, p.stderr[-500:]
    q = subprocess.run(['goto-instrument', '--show-symbol-table', '--json-ui', out],
                       capture_output=True, text=True)
    syms = []
    try:
        data = json.loads(q.stdout)
    except Exception as e:
        return f, None, 'symbol table unparsable: %r' % e
    for e in data:
        if 'symbolTable' not in e:
            continue
        for n, s in e['symbolTable'].items():
            if not s.get('isStaticLifetime') or s.get('isType') or s.get('isMacro'):
                continue
            t = s.get('type', {})
            if t.get('id') == 'code':
                continue
            loc = s.get('location', {}).get('file', '')
            if not loc.startswith(repo + '/src') and not loc.startswith(repo + '/include'):
                continue
            if s.get('isExtern'):
                continue   # a declaration; the defining TU is in the census as well
            syms.append({'name': n, 'base': s.get('baseName', n), 'file': os.path.relpath(loc, repo),
                         'line': int(s.get('location', {}).get('line', 0) or 0),
                         'thread_local': bool(s.get('isThreadLocal')), 'const': _is_const(t),
                         'type': s.get('prettyType', ''), 'tu': os.path.relpath(f, repo)})
    try:
        os.unlink(out)
    except OSError:
        pass
    return f, syms, ''


def static_census(repo='/repo'):
    """Returns (symbols, errors)."""
    tmpd = tempfile.mkdtemp(prefix='verif-census-')
    syms, errs = [], []
    try:
        with cf.ThreadPoolExecutor(16) as ex:
            for f, s, err in ex.map(_one, [(repo, f, tmpd) for f in library_sources(repo)]):
                if s is None:
                    errs.append((os.path.relpath(f, repo), err))
                else:
                    syms += s
    finally:
        import shutil
        shutil.rmtree(tmpd, ignore_errors=True)
    return syms, errs


if __name__ == '__main__':
    s, e = static_census()
    for x in s:
        if not x['const']:
            print(x)
    print('errors:', e)


def write_analysis(repo, tu, names):
    """For the mutable static symbols `names` (full goto names) defined in translation unit `tu`:
    which of them does some instruction of that TU assign to, or take the address of
    (address escapes => may be written through a pointer / by a callee)?
    Returns {name: [instruction text, ...]} for the written/escaped ones."""
    import re
    tmpd = tempfile.mkdtemp(prefix='verif-census-')
    try:
        out = os.path.join(tmpd, 'x.gb')
        p = subprocess.run(['goto-cc', '-I' + repo, '-I' + repo + '/include', '-I' + repo + '/src',
                            '-DHAVE_CONFIG_H', '-c', os.path.join(repo, tu), '-o', out],
                           capture_output=True, text=True)
        if p.returncode:
            raise RuntimeError('goto-cc failed on %s: %s' % (tu, p.stderr[-300:]))
        q = subprocess.run(['goto-instrument', '--show-goto-functions', out], capture_output=True, text=True)
        hits = {}
        for line in q.stdout.split('\n'):
            st = line.strip()
            # strip a leading numeric label "3: "
            st = re.sub(r'^\d+:\s*', '', st)
            for n in names:
                if n not in st:
                    continue
                pat = r'(?<![\w:$])' + re.escape(n) + r'(?![\w:$])'
                if not re.search(pat, st):
                    continue
                lhs = None
                m = re.match(r'(ASSIGN|CALL)\s+(.*?)\s+:=', st)
                if m:
                    lhs = m.group(2)
                wr = bool(lhs and re.search(pat, lhs) and not re.match(r'^\*?\(?[\w:$]+\s*\+', lhs))
                esc = bool(re.search(r'address_of\(\s*' + pat, st))
                if wr or esc:
                    hits.setdefault(n, []).append(st[:200])
        return hits
    finally:
        import shutil
        shutil.rmtree(tmpd, ignore_errors=True)


def census_obligations(repo='/repo'):
    """Obligations of the C12 census job and the C13 storage-class obligations."""
    syms, errs = static_census(repo)
    obs = []
    for f, e in errs:
        obs.append({'id': 'census.compile', 'desc': 'C12: translation unit compiles for the census: %s %s' % (f, e),
                    'status': 'ERROR', 'file': f, 'line': 0, 'function': '', 'cls': 'assertion'})
    mutable = [s for s in syms if not s['const']]
    by_tu = {}
    for s in mutable:
        if s['base'] in ALLOWED and ALLOWED[s['base']][0] == s['file']:
            exp_tl = ALLOWED[s['base']][1]
            obs.append({'id': 'census.storage.' + s['base'],
                        'desc': 'C13: handler cell %s has %s storage duration' % (s['base'], 'thread' if exp_tl else 'static (process-wide)'),
                        'status': 'SUCCESS' if s['thread_local'] == exp_tl else 'FAILURE',
                        'file': s['file'], 'line': s['line'], 'function': '', 'cls': 'assertion'})
            continue
        by_tu.setdefault(s['tu'], []).append(s)
    seen_allowed = {s['base'] for s in mutable if s['base'] in ALLOWED}
    for a in ALLOWED:
        if a not in seen_allowed:
            obs.append({'id': 'census.storage.' + a, 'desc': 'C13: handler cell %s exists in %s' % (a, ALLOWED[a][0]),
                        'status': 'FAILURE', 'file': ALLOWED[a][0], 'line': 0, 'function': '', 'cls': 'assertion'})
    with cf.ThreadPoolExecutor(8) as ex:
        futs = {tu: ex.submit(write_analysis, repo, tu, [s['name'] for s in ss]) for tu, ss in by_tu.items()}
        for tu, ss in by_tu.items():
            try:
                hits = futs[tu].result()
                err = None
            except Exception as e:  # noqa
                hits, err = {}, str(e)
            for s in ss:
                d = ('C12: static storage %s (%s, %s) is neither assigned nor address-taken by library code'
                     % (s['name'], s['file'], s['type']))
                st = 'ERROR' if err else ('FAILURE' if s['name'] in hits else 'SUCCESS')
                o = {'id': 'census.static.' + s['name'], 'desc': d, 'status': st, 'file': s['file'],
                     'line': s['line'], 'function': s['name'].split('::')[0] if '::' in s['name'] else '',
                     'cls': 'assertion'}
                if s['name'] in hits:
                    o['witness'] = hits[s['name']][:3]
                obs.append(o)
    obs.append({'id': 'census.total', 'desc': 'C12: census covered %d static-lifetime symbols of %d translation units'
                % (len(syms), len(library_sources(repo))), 'status': 'SUCCESS' if not errs else 'ERROR',
                'file': '', 'line': 0, 'function': '', 'cls': 'assertion'})
    return obs
