#!/usr/bin/env python3
"""overlay.py - lay loop contracts over an UNMODIFIED copy of a /repo source file.

The output is the input file, byte for byte, plus
  * one prelude block at the very top (an #include of a ghost header from /verif), and
  * for each annotated loop, the contract clauses inserted between the loop header's
    closing ')' and the loop body.
Nothing is dropped, reordered or rewritten.  `--check` mode (used by the driver's
self-test) verifies exactly that: removing the inserted lines gives back the original.

.loops file format (one per source file):

    prelude #include "ghost_str.h"
    function _strcpy_s_chk
    loop 1
      @all  assigns   dest, src, dmax
      @all  invariant dest == orig_dest + (orig_dmax - dmax)
      @C06  invariant ...
      @all  decreases dmax
    loop 2
      same 1

`loop N` is the N-th for/while loop (1-based, source order, do-while tails are not
counted) inside the function body, found by a comment/string/preprocessor-aware scanner.
`same K` copies the clauses of loop K.  A clause tagged @Cnn is kept only when the
slice asks for that property (or slice is None = keep all).
"""
import re
import sys


class OverlayError(Exception):
    pass


def _scan_tokens(text):
    """Yield (kind, start, end) for code-relevant tokens; skips comments, strings, char
    literals and preprocessor lines. kinds: 'id', 'punct'."""
    i, n = 0, len(text)
    bol = True  # at beginning of line (only whitespace seen so far)
    while i < n:
        c = text[i]
        if c == '\n':
            bol = True
            i += 1
            continue
        if c in ' \t\r\f\v':
            i += 1
            continue
        if c == '/' and i + 1 < n and text[i + 1] == '*':
            j = text.find('*/', i + 2)
            i = n if j < 0 else j + 2
            continue
        if c == '/' and i + 1 < n and text[i + 1] == '/':
            j = text.find('\n', i)
            i = n if j < 0 else j
            continue
        if c == '#' and bol:
            # preprocessor line incl. continuations
            j = i
            while True:
                k = text.find('\n', j)
                if k < 0:
                    j = n
                    break
                if text[k - 1] == '\\':
                    j = k + 1
                    continue
                j = k
                break
            i = j
            continue
        bol = False
        if c == '"' or c == "'":
            q = c
            j = i + 1
            while j < n and text[j] != q:
                if text[j] == '\\':
                    j += 1
                j += 1
            i = j + 1
            continue
        if c.isalpha() or c == '_':
            j = i + 1
            while j < n and (text[j].isalnum() or text[j] == '_'):
                j += 1
            yield ('id', i, j)
            i = j
            continue
        yield ('punct', i, i + 1)
        i += 1


def find_function_body(text, fname):
    """Return (body_open_index, body_close_index) of the definition of fname."""
    toks = list(_scan_tokens(text))
    for idx, (kind, s, e) in enumerate(toks):
        if kind == 'id' and text[s:e] == fname:
            # next token must be '('
            if idx + 1 >= len(toks) or text[toks[idx + 1][1]] != '(':
                continue
            depth = 0
            j = idx + 1
            while j < len(toks):
                ch = text[toks[j][1]] if toks[j][0] == 'punct' else ''
                if ch == '(':
                    depth += 1
                elif ch == ')':
                    depth -= 1
                    if depth == 0:
                        break
                j += 1
            # after the parameter list: skip attribute-like identifiers/parens until '{' or ';'
            j += 1
            depth = 0
            while j < len(toks):
                ch = text[toks[j][1]] if toks[j][0] == 'punct' else ''
                if ch == '(':
                    depth += 1
                elif ch == ')':
                    depth -= 1
                elif depth == 0 and ch == '{':
                    # matching close
                    d2 = 0
                    k = j
                    while k < len(toks):
                        ch2 = text[toks[k][1]] if toks[k][0] == 'punct' else ''
                        if ch2 == '{':
                            d2 += 1
                        elif ch2 == '}':
                            d2 -= 1
                            if d2 == 0:
                                return toks[j][1], toks[k][1]
                        k += 1
                    raise OverlayError('unbalanced braces in %s' % fname)
                elif depth == 0 and ch in ';,=':
                    break  # declaration or use, not a definition
                j += 1
    raise OverlayError('function %s not found' % fname)


def find_loops(text, body_open, body_close):
    """Return list of (header_text, insert_pos) for for/while loops in the body."""
    sub_off = body_open
    sub = text[body_open:body_close + 1]
    toks = list(_scan_tokens(sub))
    loops = []
    do_depth = []  # brace depths at which a 'do' is pending
    brace = 0
    i = 0
    while i < len(toks):
        kind, s, e = toks[i]
        word = sub[s:e]
        if kind == 'punct':
            if word == '{':
                brace += 1
            elif word == '}':
                brace -= 1
        if kind == 'id' and word == 'do':
            do_depth.append(brace)
        if kind == 'id' and word in ('for', 'while'):
            # find matching ')'
            j = i + 1
            if j >= len(toks) or sub[toks[j][1]] != '(':
                i += 1
                continue
            depth = 0
            while j < len(toks):
                ch = sub[toks[j][1]] if toks[j][0] == 'punct' else ''
                if ch == '(':
                    depth += 1
                elif ch == ')':
                    depth -= 1
                    if depth == 0:
                        break
                j += 1
            close = toks[j][2]
            nxt = sub[toks[j + 1][1]] if j + 1 < len(toks) else ''
            if word == 'while' and nxt == ';' and do_depth and do_depth[-1] == brace:
                do_depth.pop()  # tail of a do-while
            else:
                header = re.sub(r'\s+', ' ', sub[s:close])
                loops.append((header, sub_off + close))
            i = j + 1
            continue
        i += 1
    return loops


def parse_loops_file(path):
    spec = {'prelude': [], 'functions': {}}
    cur_f = None
    cur_l = None
    for ln, raw in enumerate(open(path), 1):
        line = raw.rstrip('\n')
        st = line.strip()
        if not st or st.startswith('//'):
            continue
        if st.startswith('prelude '):
            spec['prelude'].append(st[len('prelude '):])
        elif st.startswith('function '):
            cur_f = st.split()[1]
            spec['functions'][cur_f] = {'loops': {}, 'nloops': None}
            cur_l = None
        elif st.startswith('nloops '):
            spec['functions'][cur_f]['nloops'] = int(st.split()[1])
        elif st.startswith('loop '):
            cur_l = int(st.split()[1])
            spec['functions'][cur_f]['loops'][cur_l] = []
        elif st.startswith('same '):
            k = int(st.split()[1])
            spec['functions'][cur_f]['loops'][cur_l] = list(spec['functions'][cur_f]['loops'][k])
        elif st.startswith('@'):
            m = re.match(r'@(\w+)\s+(assigns|invariant|decreases)\s+(.*)$', st)
            if not m:
                raise OverlayError('%s:%d: bad clause' % (path, ln))
            spec['functions'][cur_f]['loops'][cur_l].append((m.group(1), m.group(2), m.group(3)))
        else:
            raise OverlayError('%s:%d: cannot parse: %s' % (path, ln, st))
    return spec


KW = {'assigns': '__CPROVER_assigns', 'invariant': '__CPROVER_loop_invariant',
      'decreases': '__CPROVER_decreases'}
MARK_O = '/*VERIF-OVERLAY{*/'
MARK_C = '/*}VERIF-OVERLAY*/'


def apply_overlay(src_text, spec, slice_tag=None, orig_path=None):
    """Return (new_text, info). Raises OverlayError when inapplicable."""
    inserts = []  # (pos, text)
    info = {'functions': {}}
    for fname, fs in spec['functions'].items():
        bo, bc = find_function_body(src_text, fname)
        loops = find_loops(src_text, bo, bc)
        expected = fs['nloops']
        if expected is not None and expected != len(loops):
            raise OverlayError('function %s: %d loops in source, contract file expects %d'
                               % (fname, len(loops), expected))
        info['functions'][fname] = {'loops_found': len(loops), 'annotated': sorted(fs['loops']),
                                    'headers': [h for h, _ in loops]}
        for ordn, clauses in fs['loops'].items():
            if ordn < 1 or ordn > len(loops):
                raise OverlayError('function %s: loop %d not present (%d loops)'
                                   % (fname, ordn, len(loops)))
            lines = []
            for tag, kind, body in clauses:
                if tag != 'all' and slice_tag is not None and tag not in slice_tag:
                    continue
                lines.append('%s(%s)' % (KW[kind], body))
            if lines:
                # same physical line: original line numbers are preserved
                inserts.append((loops[ordn - 1][1], ' ' + MARK_O + ' ' + ' '.join(lines) + ' ' + MARK_C + ' '))
    out = src_text
    for pos, txt in sorted(inserts, key=lambda x: -x[0]):
        out = out[:pos] + txt + out[pos:]
    prelude = ''.join('%s\n' % p for p in spec['prelude'])
    if prelude:
        prelude = MARK_O + '\n' + prelude + '#line 1 "%s"\n' % (orig_path or 'source.c') + MARK_C
    out = prelude + out
    return out, info


def strip_overlay(text):
    """Inverse of apply_overlay (for the add-only self check)."""
    return re.sub(re.escape(MARK_O) + r'.*?' + re.escape(MARK_C), '', text, flags=re.S)


def check_add_only(orig, overlaid):
    """True when the overlaid text with the marked lines removed equals orig modulo the
    line breaks the insertion itself introduced (whitespace-insensitive comparison)."""
    a = re.sub(r'\s+', '', orig)
    b = re.sub(r'\s+', '', strip_overlay(overlaid))
    return a == b


if __name__ == '__main__':
    import argparse
    ap = argparse.ArgumentParser()
    ap.add_argument('source')
    ap.add_argument('loops')
    ap.add_argument('--slice', default=None)
    ap.add_argument('-o', '--out', default='-')
    a = ap.parse_args()
    txt = open(a.source).read()
    sp = parse_loops_file(a.loops)
    new, info = apply_overlay(txt, sp, set(a.slice.split(',')) if a.slice else None, a.source)
    assert check_add_only(txt, new)
    if a.out == '-':
        sys.stdout.write(new)
    else:
        open(a.out, 'w').write(new)
    sys.stderr.write(repr(info) + '\n')
