#!/usr/bin/env python3
"""vlib.py - job runner for the CBMC contract pipeline (see DESIGN.md section 3).

One job = one function (or small group) under contract / one harness, one memory layout.
Pipeline:  overlay -> goto-cc -> [goto-instrument --unwind] -> [--apply-loop-contracts]
           -> [--enforce-contract/--replace-call-with-contract] -> cbmc --json-ui
Every external tool runs under `timeout` and an address-space limit.
"""
import hashlib
import json
import copy
import os
import re
import resource
import shutil
import subprocess
import sys
import tempfile
import time

VERIF = os.path.dirname(os.path.dirname(os.path.abspath(__file__)))
REPO = os.environ.get('VERIF_REPO', '/repo')
sys.path.insert(0, os.path.join(VERIF, 'lib'))
import overlay as ovl  # noqa: E402

BASE_INC = ['-I' + os.path.join(VERIF, 'include')]
REPO_INC = lambda: ['-I' + REPO, '-I' + REPO + '/include', '-I' + REPO + '/src']  # noqa: E731
CBMC_CHECKS = ['--bounds-check', '--pointer-check', '--pointer-primitive-check',
               '--div-by-zero-check', '--undefined-shift-check']


class Job:
    """Declarative description of one verification job."""

    def __init__(self, name, props, engine, harness, sources=(), overlays=None, defines=(),
                 enforce=None, replace=(), unwind=None, unwindset=(), cbmc_flags=(),
                 timeout=900, mem_gb=6, tiers=('quick', 'thorough'), functions=(),
                 bound=None, replay=False, fallback=None, config='slack', min_obl=1,
                 entry='harness', checks=None, slice_tag=None, nondet_static=False,
                 note='', assumptions=(), object_bits=None, instrument=(), weight=1,
                 no_repo_inc=False, sliced=False, split=None, no_std_checks=False, frame_prop=None, stubs=(), special=None, variants=None, quick_props=None, all_props=None, trace_defines=(), thorough_props=None):
        self.name = name
        self.props = list(props)
        self.engine = engine            # 'A' loop contracts, 'C' loop-free, 'B' bounded
        self.harness = harness          # path relative to /verif
        self.sources = list(sources)    # repo-relative paths
        self.overlays = overlays or {}  # repo-relative source -> loops file (rel. to /verif)
        self.defines = list(defines)
        self.enforce = enforce
        self.replace = list(replace)
        self.unwind = unwind
        self.unwindset = list(unwindset)
        self.cbmc_flags = list(cbmc_flags)
        self.timeout = timeout
        self.mem_gb = mem_gb
        self.tiers = tiers
        self.functions = list(functions)
        self.bound = bound
        self.replay = replay
        self.fallback = fallback
        self.config = config
        self.min_obl = min_obl
        self.entry = entry
        self.checks = CBMC_CHECKS if checks is None else list(checks)
        self.slice_tag = slice_tag
        self.nondet_static = nondet_static
        self.note = note
        self.assumptions = list(assumptions)
        self.object_bits = object_bits
        self.instrument = list(instrument)   # extra goto-instrument passes (lists of args)
        self.weight = weight                 # scheduling weight (cores/memory share)
        self.no_repo_inc = no_repo_inc
        self.split = (engine == 'A') if split is None else split
        self.no_std_checks = no_std_checks
        self.trace_defines = list(trace_defines)   # extra -D for the traced re-run (smaller objects: cheaper traces)
        self.all_props = all_props           # attribute every (non-canary) obligation of the job to these properties
        self.thorough_props = thorough_props   # thorough tier: only for these properties (None = all of props)
        self.quick_props = quick_props       # properties for which the job is part of the QUICK tier (default: all of props)
        self.variants = variants             # list of dicts(label, defines, unwind, unwindset): one run each, merged
        self.special = special               # python callable(repo) -> obligations (static-fact jobs)
        self.stubs = list(stubs)             # /verif-relative model/stub sources (cbmc only, not linked into replays)
        self.frame_prop = frame_prop         # property an 'assigns' obligation belongs to (default C01)
        self.sliced = sliced                 # run once per property with only that property's clauses


def _limits(mem_gb):
    def f():
        lim = int(mem_gb * (1 << 30))
        resource.setrlimit(resource.RLIMIT_AS, (lim, lim))
        os.setsid()
    return f


def run_tool(cmd, cwd, timeout, mem_gb, out_path=None):
    """Run cmd; return (rc, stdout_text_or_None, stderr_tail, seconds, state)."""
    t0 = time.time()
    stdout = open(out_path, 'wb') if out_path else subprocess.PIPE
    try:
        p = subprocess.Popen(cmd, cwd=cwd, stdout=stdout, stderr=subprocess.PIPE,
                             preexec_fn=_limits(mem_gb))
        try:
            so, se = p.communicate(timeout=timeout)
            state = 'done'
        except subprocess.TimeoutExpired:
            try:
                os.killpg(p.pid, 9)
            except Exception:
                p.kill()
            so, se = p.communicate()
            state = 'timeout'
    finally:
        if out_path:
            stdout.close()
    dt = time.time() - t0
    return (p.returncode, (so.decode('utf8', 'replace') if so else None),
            (se or b'').decode('utf8', 'replace')[-4000:], dt, state)


def make_noslack_include(scratch):
    """Scratch copy of include/safe_config.h with SAFECLIB_STR_NULL_SLACK undefined: the edit
    `./configure --disable-null-slack` makes.  Returned dir goes first on the include path."""
    d = os.path.join(scratch, 'noslack_inc')
    os.makedirs(d, exist_ok=True)
    txt = open(os.path.join(REPO, 'include/safe_config.h')).read()
    new, n = re.subn(r'^#define SAFECLIB_STR_NULL_SLACK 1\s*$', '#undef SAFECLIB_STR_NULL_SLACK',
                     txt, flags=re.M)
    if n != 1:
        raise RuntimeError('cannot derive the no-slack configuration: define line not found')
    open(os.path.join(d, 'safe_config.h'), 'w').write(new)
    return d


def prepare_sources(job, scratch, slice_tag=None):
    """Copy/overlay the job's sources into scratch; return (paths, overlay_info)."""
    paths = []
    info = {}
    for rel in job.sources:
        src = os.path.join(REPO, rel)
        if rel in job.overlays:
            spec = ovl.parse_loops_file(os.path.join(VERIF, job.overlays[rel]))
            txt = open(src).read()
            new, oi = ovl.apply_overlay(txt, spec, slice_tag, src)
            if not ovl.check_add_only(txt, new):
                raise ovl.OverlayError('overlay is not add-only for ' + rel)
            dst = os.path.join(scratch, os.path.basename(rel).replace('.c', '.ovl.c'))
            open(dst, 'w').write(new)
            info[rel] = oi
            paths.append(dst)
        else:
            paths.append(src)
    return paths, info


def compile_cmd(job, scratch, paths, out):
    inc = list(BASE_INC)
    if job.config == 'noslack':
        inc.insert(0, '-I' + make_noslack_include(scratch))
    if not job.no_repo_inc:
        inc += REPO_INC()
    cmd = ['goto-cc'] + inc + ['-DHAVE_CONFIG_H'] + ['-D' + d for d in job.defines]
    cmd += ['--function', job.entry, os.path.join(VERIF, job.harness)] + paths
    cmd += [os.path.join(VERIF, x) for x in job.stubs] + ['-o', out]
    return cmd


def parse_cbmc_text(path):
    """Plain-text cbmc output -> (results, messages, status) in the shape of parse_cbmc_json."""
    try:
        txt = open(path, errors='replace').read()
    except OSError as e:
        return None, ['no cbmc output: %s' % e], None
    results, msgs = [], []
    cur_file, cur_fn = '', ''
    seen_results = False
    for line in txt.split('\n'):
        if line.startswith('** Results:'):
            seen_results = True
            continue
        m = re.match(r'^\[(\S+)\] (?:line (\d+) )?(.*): (SUCCESS|FAILURE|UNKNOWN|ERROR)$', line)
        if m and seen_results:
            results.append({'property': m.group(1), 'description': m.group(3), 'status': m.group(4),
                            'sourceLocation': {'file': cur_file, 'function': cur_fn, 'line': m.group(2) or '0'}})
            continue
        m = re.match(r'^(\S.*) function (\S+)$', line)
        if m and seen_results:
            cur_file, cur_fn = m.group(1), m.group(2)
            continue
        low = line.lower()
        if 'out of memory' in low or line.startswith('CONVERSION ERROR') or 'error:' in low or low.startswith('too many addressed objects') \
                or 'invariant check failed' in low or 'usage error' in low:
            msgs.append('ERROR: ' + line.strip()[:300])
    status = 'success' if 'VERIFICATION SUCCESSFUL' in txt else ('failure' if 'VERIFICATION FAILED' in txt else None)
    if not seen_results or status is None:
        if 'VERIFICATION ERROR' in txt or msgs:
            return (results or None), msgs or ['ERROR: cbmc reported VERIFICATION ERROR'], None
        return None, msgs or ['no result section in cbmc output: ' + txt[-300:]], None
    return results, msgs, status


def parse_cbmc_json(path):
    """Return (results, messages, status). results: list of dicts."""
    try:
        data = json.load(open(path))
    except Exception as e:  # truncated (timeout / OOM)
        return None, ['unparsable cbmc output: %s' % e], None
    results = None
    msgs = []
    status = None
    for e in data:
        if 'result' in e:
            results = e['result']
        elif 'messageText' in e:
            if e.get('messageType') in ('ERROR', 'WARNING'):
                msgs.append(e['messageType'] + ': ' + e['messageText'])
        elif 'cProverStatus' in e:
            status = e['cProverStatus']
    return results, msgs, status


import threading


class ResourceGate:
    """Admission control for solver processes: at most `slots` at a time and at most `mem` GB of
    declared address-space limits in flight (the kernel OOM killer took down 8 GB cbmc processes
    when 16 of them ran at once on the 62 GB sandbox)."""

    def __init__(self, slots, mem):
        self.slots, self.mem = slots, mem
        self.cv = threading.Condition()

    def acquire(self, gb):
        gb = min(gb, self.mem)
        with self.cv:
            while self.slots < 1 or self.mem < gb:
                self.cv.wait()
            self.slots -= 1
            self.mem -= gb
        return gb

    def release(self, gb):
        with self.cv:
            self.slots += 1
            self.mem += gb
            self.cv.notify_all()


GATE = ResourceGate(int(os.environ.get('VERIF_JOBS', os.cpu_count() or 4)), float(os.environ.get('VERIF_MEM_GB', '44')))


def ob_class(name, cls):
    """Normalised obligation class from the cbmc property name."""
    parts = name.split('.')
    if len(parts) >= 3:
        return parts[-2]
    if len(parts) == 2 and parts[1].isdigit():
        return 'loop'           # legacy loop-contract obligations: <function>.<n>
    return (cls or '').replace(' ', '_')


def make_groups(cand):
    """Hard obligations (ensures clauses, invariant preservation) get a solver process each, the
    many cheap ones (frame and pointer checks) are batched."""
    groups = []
    cheap = []
    bases = []
    for o in cand:
        d = o['desc']
        if o['cls'] == 'postcondition' or 'invariant is preserved' in d or o['cls'] == 'assertion' and not d.startswith('assertion havoc'):
            groups.append([o['id']])
        elif 'loop invariant before entry' in d or 'decreases clause' in d:
            bases.append(o['id'])
        else:
            cheap.append(o['id'])
    for i in range(0, len(bases), 4):
        groups.append(bases[i:i + 4])
    for i in range(0, len(cheap), 200):
        groups.append(cheap[i:i + 200])
    return groups


def run_job(job, tier='quick', want_trace=False, keep=None, select=None):
    """Run a job; a job with `variants` is run once per variant (in parallel) and merged."""
    if not job.variants:
        return run_job1(job, tier, want_trace, keep, select)
    import copy
    import concurrent.futures as _cf
    t0 = time.time()

    def one(v):
        j = copy.copy(job)
        j.variants = None
        j.defines = list(job.defines) + list(v.get('defines', []))
        if 'unwind' in v:
            j.unwind = v['unwind']
        if 'unwindset' in v:
            j.unwindset = list(v['unwindset'])
        sel = select
        if select is not None:
            # obligation ids carry the variant label after the merge
            sel = lambda o, _l=v['label']: select(dict(o, id=o['id'].split('@')[0]))
        r = run_job1(j, tier, want_trace, keep, sel)
        for o in r['obligations']:
            o['id'] = '%s@%s' % (o['id'], v['label'])
            o['variant'] = v['label']
        return r
    with _cf.ThreadPoolExecutor(max_workers=int(os.environ.get('VERIF_JOBS', os.cpu_count() or 4))) as ex:
        rs = list(ex.map(one, job.variants))
    res = {'job': job.name, 'engine': job.engine, 'state': 'ok', 'obligations': [], 'messages': [],
           'cmds': rs[0]['cmds'][:] + ['... %d variants: %s' % (len(rs), ', '.join(v['label'] for v in job.variants[:6]) + (' ...' if len(rs) > 6 else ''))],
           'solver_s': round(sum(r.get('solver_s', 0) for r in rs), 2), 'overlay': {}, 'variants': len(rs)}
    for r, v in zip(rs, job.variants):
        if r['state'] != 'ok':
            res['state'] = r['state'] if res['state'] == 'ok' else res['state']
            res['messages'] += ['[%s] %s' % (v['label'], m) for m in r['messages'][:3]]
        res['obligations'] += r['obligations']
    res['wall_s'] = round(time.time() - t0, 2)
    return res


def job_for_variant(job, label):
    """The single-variant job behind an obligation id 'xyz@label'."""
    import copy
    for v in job.variants or []:
        if v['label'] == label:
            j = copy.copy(job)
            j.variants = None
            j.defines = list(job.defines) + list(v.get('defines', []))
            if 'unwind' in v:
                j.unwind = v['unwind']
            if 'unwindset' in v:
                j.unwindset = list(v['unwindset'])
            return j
    return None


def run_job1(job, tier='quick', want_trace=False, keep=None, select=None):
    """Execute one job. Returns dict:
       state: 'ok' | 'inapplicable' | 'error' | 'timeout'
       obligations: [ {id, desc, status, file, line, function, cls, trace?} ]
    """
    t0 = time.time()
    if job.special is not None:
        res = {'job': job.name, 'engine': job.engine, 'state': 'ok', 'obligations': [], 'messages': [],
               'cmds': ['python: %s.%s(%s)' % (job.special.__module__, job.special.__name__, REPO)],
               'solver_s': 0.0, 'overlay': {}}
        try:
            obs = job.special(REPO)
            res['obligations'] = [o for o in obs if select is None or select(o)]
        except Exception as e:  # noqa
            res['state'] = 'error'
            res['messages'].append('special job failed: %r' % e)
        res['wall_s'] = round(time.time() - t0, 2)
        return res
    scratch = tempfile.mkdtemp(prefix='verif-' + job.name + '-', dir=os.environ.get('TMPDIR', '/tmp'))
    res = {'job': job.name, 'engine': job.engine, 'state': 'error', 'obligations': [],
           'messages': [], 'cmds': [], 'solver_s': 0.0, 'overlay': {}}
    try:
        try:
            paths, oinfo = prepare_sources(job, scratch, job.slice_tag)
            res['overlay'] = oinfo
        except ovl.OverlayError as e:
            res['state'] = 'inapplicable'
            res['messages'].append('overlay: %s' % e)
            return res
        except FileNotFoundError as e:
            res['state'] = 'inapplicable'
            res['messages'].append('source missing: %s' % e)
            return res
        a = os.path.join(scratch, 'a.gb')
        cmd = compile_cmd(job, scratch, paths, a)
        if want_trace and job.trace_defines:
            i = cmd.index('--function')
            cmd = cmd[:i] + ['-D' + d for d in job.trace_defines] + cmd[i:]
        res['cmds'].append(' '.join(cmd))
        rc, so, se, dt, st = run_tool(cmd, scratch, 300, 8)
        if rc != 0 or not os.path.exists(a):
            res['messages'].append('goto-cc failed: ' + (se or '') + (so or ''))
            return res
        cur = a
        step = 0
        if any('.*:' in u for u in job.unwindset):
            # 'FUNC.*:N' = every loop of FUNC gets bound N (loop ids enumerated from the binary)
            rc, so, se, dt, st = run_tool(['cbmc', '--show-loops', a], scratch, 120, 4)
            ids = re.findall(r'^Loop (\S+):', so or '', re.M)
            exp = []
            for u in job.unwindset:
                if '.*:' in u:
                    fn, n = u.split('.*:')
                    mine = [i for i in ids if i.rsplit('.', 1)[0] == fn]
                    if not mine:
                        res['messages'].append('unwindset %s: function has no loops in the binary' % u)
                        return res
                    exp += ['%s:%s' % (i, n) for i in mine]
                else:
                    exp.append(u)
            job = copy.copy(job)
            job.unwindset = exp

        def gi(args):
            nonlocal cur, step
            step += 1
            nxt = os.path.join(scratch, 'g%d.gb' % step)
            c = ['goto-instrument'] + args + [cur, nxt]
            res['cmds'].append(' '.join(c))
            rc, so, se, dt, st = run_tool(c, scratch, 600, max(job.mem_gb, 8))
            if rc != 0 or not os.path.exists(nxt):
                res['messages'].append('goto-instrument %s failed (%s): %s %s'
                                       % (args[0], st, (so or '')[-3000:], (se or '')[-3000:]))
                return False
            cur = nxt
            return True

        for extra in job.instrument:
            if not gi(list(extra)):
                return res
        if job.engine == 'A':
            if not gi(['--apply-loop-contracts']):
                return res
        if job.enforce or job.replace:
            if job.unwind and job.engine != 'A':
                uw = ['--unwind', str(job.unwind), '--unwinding-assertions']
                for u in job.unwindset:
                    uw += ['--unwindset', u]
                if not gi(uw):
                    return res
            args = []
            if job.enforce:
                args += ['--enforce-contract', job.enforce]
            for r in job.replace:
                args += ['--replace-call-with-contract', r]
            args += ['--add-library']
            if not gi(args):
                return res
        if job.nondet_static:
            if not gi(['--nondet-static']):
                return res
        base = ['cbmc', '--sat-solver', 'cadical'] + job.checks + ['--json-ui']
        if job.no_std_checks:
            base.insert(3, '--no-standard-checks')
        if job.unwind:
            base += ['--unwind', str(job.unwind), '--unwinding-assertions']
            for u in job.unwindset:
                base += ['--unwindset', u]
        if job.object_bits:
            base += ['--object-bits', str(job.object_bits)]
        base += job.cbmc_flags
        groups = [None]
        if job.split or select is not None:
            # enumerate the obligations first, keep the relevant ones, split into groups that are
            # solved by separate cbmc processes in parallel
            pl = os.path.join(scratch, 'props.json')
            rc, so, se, dt, st = run_tool(base + ['--show-properties', cur], scratch, 300, job.mem_gb, out_path=pl)
            props = None
            try:
                for e in json.load(open(pl)):
                    if 'properties' in e:
                        props = e['properties']
            except Exception as e:
                res['messages'].append('show-properties failed: %r %s' % (e, se[-1000:]))
                return res
            if props is None:
                res['messages'].append('show-properties gave no list: ' + se[-1000:])
                return res
            res['total_obligations_generated'] = len(props)
            cand = []
            for pr in props:
                sl = pr.get('sourceLocation', {})
                ob = {'id': pr['name'], 'desc': pr.get('description', ''), 'file': sl.get('file', ''),
                      'line': int(sl.get('line', 0) or 0), 'function': sl.get('function', ''),
                      'cls': ob_class(pr['name'], pr.get('class', ''))}
                if select is None or select(ob):
                    cand.append(ob)
            groups = make_groups(cand) if job.split else [[o['id'] for o in cand]]
            if not cand:
                res['state'] = 'ok'
                return res
        res['cmds'].append(' '.join(base + (['--property <selected obligations, %d groups>' % len(groups)]
                                            if groups != [None] else []) + [cur]))

        def run_group(gi_, names):
            """One cbmc process.  Plain-text UI unless a trace is wanted: with --json-ui cbmc always
            emits the full counterexample trace of every failing obligation, which for harnesses with
            large symbolic objects costs gigabytes (measured: 8 GB / 170 s instead of 40 MB / 1 s)."""
            out = os.path.join(scratch, 'out%d.%s' % (gi_, 'json' if want_trace else 'txt'))
            cmd = [c for c in base if c != '--json-ui'] if not want_trace else list(base)
            if names is not None:
                for n in names:
                    cmd += ['--property', n]
            if want_trace:
                cmd += ['--trace']
            cmd += [cur]
            got = GATE.acquire(job.mem_gb)
            try:
                rc, so, se, dt, st = run_tool(cmd, scratch, job.timeout, job.mem_gb, out_path=out)
            finally:
                GATE.release(got)
            if st == 'timeout':
                return ('timeout', 'cbmc timed out after %ds (group %d: %s)' % (job.timeout, gi_, (names or ['all'])[:3]), dt, None)
            if want_trace:
                results, msgs, status = parse_cbmc_json(out)
            else:
                results, msgs, status = parse_cbmc_text(out)
            if results is None:
                return ('error', 'cbmc rc=%s no result list (group %d) %s %s' % (rc, gi_, msgs[:3], se[-1500:]), dt, None)
            if any('out of memory' in m.lower() for m in msgs):
                return ('error', 'cbmc ran out of memory (group %d): %s' % (gi_, msgs[:2]), dt, None)
            return ('ok', [m for m in msgs if 'ERROR' in m][:5], dt, results)

        import concurrent.futures as _cf
        with _cf.ThreadPoolExecutor(max_workers=max(1, len(groups))) as ex:
            outs = list(ex.map(lambda t: run_group(t[0], t[1]), list(enumerate(groups))))
        res['solver_s'] = round(sum(o[2] for o in outs), 2)
        res['groups'] = len(groups)
        bad = [o for o in outs if o[0] != 'ok']
        if bad:
            res['state'] = 'timeout' if any(o[0] == 'timeout' for o in bad) else 'error'
            res['messages'] += [o[1] for o in bad]
            return res
        # cbmc reports UNKNOWN for obligations that lie behind a failing one on every path (it cannot
        # decide them once the failing assertion is taken as an assumption).  Second pass: exactly those
        # obligations alone, without the failing ones in the property set.
        if not want_trace:
            allr = [r for o in outs for r in o[3]]
            unk = [r.get('property') for r in allr if r.get('status') == 'UNKNOWN']
            if unk and any(r.get('status') == 'FAILURE' for r in allr):
                o2 = run_group(len(groups) + 1, unk)
                res['cmds'].append('second pass over %d obligations left UNKNOWN behind a failing one' % len(unk))
                if o2[0] == 'ok' and o2[3]:
                    newst = {r.get('property'): r for r in o2[3]}
                    outs = [(o[0], o[1], o[2], [newst.get(r.get('property'), r) if r.get('status') == 'UNKNOWN' else r
                                                  for r in o[3]]) for o in outs]
                    res['solver_s'] = round(res['solver_s'] + o2[2], 2)
        for o in outs:
            res['messages'] += o[1]
            for r in o[3]:
                sl = r.get('sourceLocation', {})
                ob = {'id': r.get('property'), 'desc': r.get('description', ''),
                      'status': r.get('status'), 'file': sl.get('file', ''),
                      'line': int(sl.get('line', 0) or 0), 'function': sl.get('function', ''),
                      'cls': ob_class(r.get('property', ''), '')}
                if want_trace and 'trace' in r:
                    ob['trace'] = r['trace']
                res['obligations'].append(ob)
        res['state'] = 'ok'
        return res
    finally:
        res['wall_s'] = round(time.time() - t0, 2)
        if os.environ.get('VERIF_KEEP'):
            sys.stderr.write('kept scratch: %s\n' % scratch)
        else:
            shutil.rmtree(scratch, ignore_errors=True)


# ---------------------------------------------------------------- attribution

_TAG_CACHE = {}


def spec_line_tags(path):
    """Map line number -> set of property tags from '/* @C03 @C08 */' comments."""
    if path in _TAG_CACHE:
        return _TAG_CACHE[path]
    tags = {}
    try:
        for i, line in enumerate(open(path), 1):
            m = re.findall(r'@(C\d\d)', line)
            if m:
                tags[i] = set(m)
    except OSError:
        pass
    _TAG_CACHE[path] = tags
    return tags


def classify(job, ob):
    """Return (kind, props).  kind in:
       'canary'   expected FAILURE (reachability witness)
       'assumed'  filtered (A2: cross-object pointer comparison)
       'prop'     obligation belonging to the listed properties ('MEMSAFE' = C01 or C02, resolved
                  by the driver into store side / load side)
       'aux'      lemma or harness-internal obligation (loop-invariant base/step, decreases,
                  unwinding assertion, ghost arithmetic); must hold for every property the job serves
    """
    desc = ob['desc']
    cls = ob['cls']
    if desc.startswith('CANARY'):
        return 'canary', set()
    if 'same object violation' in desc:
        return 'assumed', set()
    m = re.match(r'^((?:C\d\d[ ,/]*)+):', desc)
    if m:
        return 'prop', set(re.findall(r'C\d\d', m.group(1)))
    if job.all_props and not (cls == 'unwind' or 'unwinding assertion' in desc):
        return 'prop', set(job.all_props)
    hpath = os.path.join(VERIF, job.harness)
    if cls == 'postcondition' or desc.startswith('Check ensures clause'):
        f = ob['file']
        if not os.path.isabs(f):
            f = hpath
        tags = spec_line_tags(f if os.path.exists(f) else hpath).get(ob['line'])
        if tags:
            return 'prop', set(tags)
        return 'aux', set()
    if cls == 'loop':
        return 'aux', set()
    in_harness = ob['file'].startswith(VERIF) or os.path.basename(ob['file']) == os.path.basename(job.harness)
    if cls == 'assigns' or 'is assignable' in desc:
        if job.frame_prop:
            return 'prop', set(job.frame_prop)
        return 'prop', {'C01'}
    if cls in ('precondition_instance', 'precondition'):
        if 'writeable' in desc:
            return 'prop', {'C01'}
        if 'readable' in desc:
            return 'prop', {'C02'}
        m2 = re.search(r'@(C\d\d)', desc)
        if m2:
            return 'prop', {m2.group(1)}
        return 'aux', set()
    if cls in ('pointer_dereference', 'bounds', 'array_bounds', 'pointer_primitives',
               'pointer_arithmetic', 'pointer'):
        if in_harness:
            return 'aux', set()
        return 'prop', {'MEMSAFE'}
    if cls == 'memory-leak' or 'memory leak' in desc or 'never freed' in desc:
        return 'prop', {'C20'}
    return 'aux', set()


# ---------------------------------------------------------------- trace -> replay input

def trace_inputs(trace, prefix='IN'):
    """Collect the last scalar assignment to every IN.* leaf in a CBMC json trace."""
    vals = {}
    for st in trace:
        if st.get('stepType') != 'assignment':
            continue
        lhs = st.get('lhs', '')
        if not (lhs == prefix or lhs.startswith(prefix + '.') or lhs.startswith(prefix + '[')
                or lhs.startswith(prefix + '_')):
            continue
        if '$' in lhs:
            continue
        v = st.get('value', {})
        if v.get('name') in ('integer', 'float') and 'binary' in v:
            vals[lhs] = v
        elif v.get('name') == 'pointer':
            continue
    out = {}
    for lhs, v in vals.items():
        key = re.sub(r'\[(\d+)[a-zA-Z]*\]', r'[\1]', lhs)
        out[key] = {'hex': '0x%x' % int(v['binary'], 2), 'width': v.get('width'),
                    'data': v.get('data'), 'type': v.get('type')}
    return out


def replay_header(inputs):
    lines = ['/* generated from the verifier counterexample */']
    for k in sorted(inputs):
        v = inputs[k]
        if v.get('type') in ('float', 'double'):
            lines.append('{ unsigned long long _b = %sULL; memcpy(&%s, &_b, sizeof(%s)); }'
                         % (v['hex'], k, k))
        else:
            lines.append('%s = (__typeof__(%s))%sULL;' % (k, k, v['hex']))
    return '\n'.join(lines) + '\n'


def native_replay(job, inputs, workdir=None):
    """Compile the job's harness natively with -DVERIF_REPLAY against the real sources from the
    current tree (ASan+UBSan) and run it.  Returns dict(reproduced, rc, output)."""
    scratch = tempfile.mkdtemp(prefix='verif-replay-', dir=os.environ.get('TMPDIR', '/tmp'))
    try:
        open(os.path.join(scratch, 'replay_in.h'), 'w').write(replay_header(inputs))
        exe = os.path.join(scratch, 'replay')
        inc = ['-I' + scratch] + BASE_INC
        if job.config == 'noslack':
            inc.insert(0, '-I' + make_noslack_include(scratch))
        inc += REPO_INC()
        srcs = [os.path.join(REPO, s) for s in job.sources]
        cmd = ['gcc', '-g', '-O0', '-w', '-fsanitize=address,undefined', '-fno-sanitize-recover=undefined',
               '-DVERIF_REPLAY', '-DHAVE_CONFIG_H'] + ['-D' + d for d in job.defines] + inc + \
              [os.path.join(VERIF, job.harness)] + srcs + ['-o', exe, '-lm']
        p = subprocess.run(cmd, capture_output=True, text=True, timeout=300)
        if p.returncode != 0:
            return {'reproduced': False, 'rc': None,
                    'output': 'replay build failed:\n' + p.stderr[-3000:], 'cmd': ' '.join(cmd)}
        env = dict(os.environ, ASAN_OPTIONS=('detect_leaks=1' if 'C20' in job.props and len(job.props) == 1 else 'detect_leaks=0') + ':abort_on_error=0', LC_ALL='C')
        try:
            r = subprocess.run([exe], capture_output=True, text=True, timeout=60, env=env, cwd=scratch)
            rc, out = r.returncode, (r.stdout + r.stderr)[-6000:]
        except subprocess.TimeoutExpired:
            rc, out = -1, 'replay timed out (non-termination on the counterexample input)'
        reproduced = rc not in (0, 3)
        return {'reproduced': reproduced, 'rc': rc, 'output': out, 'cmd': ' '.join(cmd)}
    finally:
        shutil.rmtree(scratch, ignore_errors=True)
