#include <stdio.h>
#include <string.h>
#include <time.h>
#include "safe_lib.h"
static int calls; static errno_t code;
static void h(const char *restrict m, void *restrict p, errno_t e) { (void)p; calls++; code = e; printf("  handler: %s (%d)\n", m, e); }
int main(void)
{
    static char big[8000]; struct tm tm; time_t t = 86400 * 365; int bad = 0;
    memset(&tm, 0, sizeof tm); tm.tm_mday = 1; tm.tm_year = 100;
    set_str_constraint_handler_s(h);
    memset(big, 'x', sizeof big - 1); calls = 0;
    errno_t rc = _asctime_s_chk(big, 5000, &tm, sizeof big);
    printf("asctime_s rc=%d handler_calls=%d code=%d dest=\"%.10s\"\n", rc, calls, code, big);
    if (rc == 0 && calls) bad |= 1;
    memset(big, 'x', sizeof big - 1); calls = 0;
    rc = _ctime_s_chk(big, 5000, &t, sizeof big);
    printf("ctime_s   rc=%d handler_calls=%d code=%d dest=\"%.10s\"\n", rc, calls, code, big);
    if (rc == 0 && calls) bad |= 2;
    return bad;
}
