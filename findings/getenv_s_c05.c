/* C05 finding: getenv_s delegates the copy to strcpy_s(dest, dmax, buf) - object size unknown there -
 * (a) with dest non-null and dmax == 0 (documented as allowed: length query), (b) with dmax above
 * RSIZE_MAX_STR inside a known, large enough object: strcpy_s invokes the constraint handler
 * (ESZEROL / ESLEMAX) while getenv_s returns EOK; in (b) dest is not even written. */
#include <stdio.h>
#include <stdlib.h>
#include <string.h>
#include "safe_lib.h"
static int calls; static errno_t code;
static void h(const char *restrict m, void *restrict p, errno_t e) { (void)p; calls++; code = e; printf("  handler: %s (%d)\n", m, e); }
int main(void)
{
    static char big[8000]; char dest[8] = "xxxxxxx"; size_t len = 99; int bad = 0;
    setenv("VP_DEMO", "abc", 1);
    set_str_constraint_handler_s(h);
    errno_t rc = _getenv_s_chk(&len, dest, 0, "VP_DEMO", sizeof dest);
    printf("(a) rc=%d len=%zu handler_calls=%d code=%d\n", rc, len, calls, code);
    if (rc == 0 && calls != 0) bad = 1;
    calls = 0; memset(big, 'x', sizeof big);
    rc = _getenv_s_chk(&len, big, 5000, "VP_DEMO", sizeof big);
    printf("(b) rc=%d len=%zu handler_calls=%d code=%d dest=\"%.3s\"\n", rc, len, calls, code, big);
    if (rc == 0 && (calls != 0 || strncmp(big, "abc", 4) != 0)) bad = 1;
    return bad;
}
