#include <stdio.h>
#include <string.h>
#include "safe_lib.h"
static int calls; static errno_t code;
static void h(const char *restrict m, void *restrict p, errno_t e) { (void)p; calls++; code = e; printf("  handler: %s (%d)\n", m, e); }
int main(void)
{
    static char big[8000]; memset(big, 'x', sizeof big - 1);
    set_str_constraint_handler_s(h);
    errno_t rc = _strerror_s_chk(big, 5000, ESNULLP, sizeof big);
    printf("rc=%d handler_calls=%d code=%d dest=\"%.12s\"\n", rc, calls, code, big);
    return (rc == 0 && calls) ? 1 : 0;
}
