/* C03 finding: mbsrtowcs_s, known object size, valid dmax, len above the object size:
 * fails with EOVERFLOW and leaves dest untouched (no NUL within dmax). */
#include <stdio.h>
#include <string.h>
#include <wchar.h>
#include "safe_str_lib.h"
static void h(const char *restrict m, void *restrict p, errno_t e) { (void)m; (void)p; (void)e; }
int main(void)
{
    wchar_t dest[5]; size_t ret = 99; mbstate_t st; const char *src = "a";
    for (int i = 0; i < 5; i++) dest[i] = L'x';
    memset(&st, 0, sizeof st);
    set_str_constraint_handler_s(h);
    errno_t rc = _mbsrtowcs_s_chk(&ret, dest, 5, &src, 6, &st, sizeof dest);
    int nul = 0; for (int i = 0; i < 5; i++) if (dest[i] == 0) nul = 1;
    printf("rc=%d nul_within_dmax=%d\n", rc, nul);
    return nul ? 0 : 1;
}
