/* C02 finding: strispassword_s tests *dest before its length counter: an unterminated array that
 * exactly fills its declared size (8 valid password characters, dmax 8) is read at dest[8]. */
#include <stdio.h>
#include <stdlib.h>
#include <string.h>
#include "safe_lib.h"
static void h(const char *restrict m, void *restrict p, errno_t e) { (void)p; printf("  handler: %s (%d)\n", m, e); }
int main(void)
{
    char *d = malloc(8); memcpy(d, "aB1!aB1!", 8);
    set_str_constraint_handler_s(h);
    bool r = _strispassword_s_chk(d, 8, 8);
    printf("r=%d\n", r);
    return 0;
}
