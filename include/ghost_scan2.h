/* ghost state shared between contracts/extstr/scan2.spec.c and its loop contracts */
#ifndef GHOST_SCAN2_H
#define GHOST_SCAN2_H
#include <stddef.h>
extern const char *g_dest0, *g_src0;   /* operands at entry                                     */
extern size_t g_dmax0;
extern size_t g_ssz, g_ssz2;           /* elements of the exact-fit objects of dest / src       */
extern size_t g_nul, g_nul2; extern int g_has_nul, g_has_nul2;   /* Skolem NUL positions */
extern size_t gk;                      /* arbitrary index                                       */
extern int g_hcalls; extern int g_herr;
#endif
