/* ghost state shared between contracts/misc/bsearch_s.spec.c and its loop contract */
#ifndef GHOST_BS_H
#define GHOST_BS_H
#include <stddef.h>
extern const char *g_base0;     /* base at entry (exact-fit object of g_n0 * g_size bytes) */
extern size_t g_n0;             /* nmemb at entry */
extern size_t gk;               /* arbitrary element index */
extern int g_hcalls; extern int g_herr;
extern unsigned g_ncmp;              /* comparator calls (each with in-range arguments) */
#endif
