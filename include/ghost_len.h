/* ghost state shared between the strnlen_s / wcsnlen_s spec TUs and their loop contracts */
#ifndef GHOST_LEN_H
#define GHOST_LEN_H
#include <stddef.h>
extern const void *g_str0;          /* str at entry                                            */
extern size_t g_smax0, g_bos0;      /* smax / strbos at entry                                  */
extern size_t g_ssz;                /* elements of the (exact-fit) object str points to        */
extern size_t g_nul;                /* Skolem: some index < g_ssz holding NUL (if g_has_nul)    */
extern int g_has_nul;
extern size_t gk;                   /* arbitrary index                                          */
extern int g_hcalls; extern int g_herr;
#endif
