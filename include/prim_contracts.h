/* prim_contracts.h - function contracts for the word-unrolled primitives of
 * src/mem/mem_primitives_lib.c, used MODULARLY: callers (memset_s, memcpy_s, ...) are verified
 * against these contracts (goto-instrument --replace-call-with-contract), the primitive bodies
 * are checked against the same statements by the enumerated bounded jobs B.mem_prim_*
 * (harness/memprim.c).  Evidence marks that dependency.
 *
 * requires = the caller's obligation (C01 store side / C02 load side),
 * assigns  = frame, ensures = functional result for an arbitrary index gk (ghost),
 * plus a ghost event clock: every store primitive stamps g_last_store (C18).
 */
#ifndef PRIM_CONTRACTS_H
#define PRIM_CONTRACTS_H
#include <stdint.h>
#include <stddef.h>

extern size_t gk;                       /* arbitrary byte index (byte primitives) */
extern size_t gke;                      /* arbitrary element index (16/32-bit primitives) */
extern unsigned long g_ev, g_last_store, g_last_barrier;
/* The ghost event clock (C18) is part of the contract only where the contract REPLACES the
 * primitive (callers: "a store event happened here"); when the contract is ENFORCED on the real
 * body (contracts/mem/prims.spec.c, -DPRIM_ENFORCE) the clock clauses are left out - the body
 * has no ghost code. */
#ifdef PRIM_ENFORCE
#define PRIM_CLOCK_ENSURES
#define PRIM_CLOCK_ASSIGNS
/* ghost bindings for the loop invariants: the entry value of len and of the source element */
#include "ghost_prim.h"
#define PRIM_GHOST_SET __CPROVER_requires(len == g_len0)
#define PRIM_GHOST_MOVE(T, idx) __CPROVER_requires(len == g_len0) __CPROVER_requires(idx < len ==> ((const T *)src)[idx * (size_t)(idx < len)] == (T)g_old)
#else
#define PRIM_GHOST_SET
#define PRIM_GHOST_MOVE(T, idx)
#define PRIM_CLOCK_ENSURES __CPROVER_ensures(g_ev == __CPROVER_old(g_ev) + 1 && g_last_store == g_ev)
#define PRIM_CLOCK_ASSIGNS , g_ev, g_last_store
#endif

void mem_prim_set(void *dest, uint32_t len, uint8_t value)
PRIM_GHOST_SET
__CPROVER_requires(len == 0 || __CPROVER_w_ok(dest, len))
__CPROVER_assigns(__CPROVER_object_upto(dest, len) PRIM_CLOCK_ASSIGNS)
__CPROVER_ensures(gk < len ==> ((uint8_t *)dest)[gk] == value)
PRIM_CLOCK_ENSURES
;
void mem_prim_set16(uint16_t *dest, uint32_t len, uint16_t value)
PRIM_GHOST_SET
__CPROVER_requires(len == 0 || __CPROVER_w_ok(dest, (size_t)len * 2))
__CPROVER_assigns(__CPROVER_object_upto(dest, (size_t)len * 2) PRIM_CLOCK_ASSIGNS)
__CPROVER_ensures(gke < len ==> dest[gke] == value)
PRIM_CLOCK_ENSURES
;
void mem_prim_set32(uint32_t *dest, uint32_t len, uint32_t value)
PRIM_GHOST_SET
__CPROVER_requires(len == 0 || __CPROVER_w_ok(dest, (size_t)len * 4))
__CPROVER_assigns(__CPROVER_object_upto(dest, (size_t)len * 4) PRIM_CLOCK_ASSIGNS)
__CPROVER_ensures(gke < len ==> dest[gke] == value)
PRIM_CLOCK_ENSURES
;
void mem_prim_move(void *dest, const void *src, uint32_t len)
PRIM_GHOST_MOVE(uint8_t, gk)
__CPROVER_requires(len > 0)
__CPROVER_requires(__CPROVER_w_ok(dest, len))
__CPROVER_requires(__CPROVER_r_ok(src, len))
__CPROVER_assigns(__CPROVER_object_upto(dest, len))
__CPROVER_ensures(gk < len ==> ((uint8_t *)dest)[gk] == __CPROVER_old(((const uint8_t *)src)[gk * (size_t)(gk < len)]))
;
void mem_prim_move8(uint8_t *dest, const uint8_t *src, uint32_t len)
PRIM_GHOST_MOVE(uint8_t, gk)
__CPROVER_requires(len > 0 && __CPROVER_w_ok(dest, len) && __CPROVER_r_ok(src, len))
__CPROVER_assigns(__CPROVER_object_upto(dest, len))
__CPROVER_ensures(gk < len ==> dest[gk] == __CPROVER_old(src[gk * (size_t)(gk < len)]))
;
void mem_prim_move16(uint16_t *dest, const uint16_t *src, uint32_t len)
PRIM_GHOST_MOVE(uint16_t, gke)
__CPROVER_requires(len > 0 && __CPROVER_w_ok(dest, (size_t)len * 2) && __CPROVER_r_ok(src, (size_t)len * 2))
__CPROVER_assigns(__CPROVER_object_upto(dest, (size_t)len * 2))
__CPROVER_ensures(gke < len ==> dest[gke] == __CPROVER_old(src[gke * (size_t)(gke < len)]))
;
void mem_prim_move32(uint32_t *dest, const uint32_t *src, uint32_t len)
PRIM_GHOST_MOVE(uint32_t, gke)
__CPROVER_requires(len > 0 && __CPROVER_w_ok(dest, (size_t)len * 4) && __CPROVER_r_ok(src, (size_t)len * 4))
__CPROVER_assigns(__CPROVER_object_upto(dest, (size_t)len * 4))
__CPROVER_ensures(gke < len ==> dest[gke] == __CPROVER_old(src[gke * (size_t)(gke < len)]))
;
#endif
