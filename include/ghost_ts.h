/* ghost state shared between contracts/extmem/timingsafe.spec.c and its loop contracts */
#ifndef GHOST_TS_H
#define GHOST_TS_H
#include <stddef.h>
extern size_t g_n0;                   /* n at entry                                              */
extern size_t g_sz1, g_sz2;           /* sizes of the exact-fit objects b1 / b2 point to         */
extern size_t g_dmax0;               /* dmax at entry (memcmp_s)                                 */
extern size_t gk;                     /* arbitrary index                                         */
extern unsigned long g_cn, g_ct;      /* branch events ("not-taken" / "taken") inserted mechanically
                                         by goto-instrument --branch verif_branch                */
extern int g_hcalls; extern int g_herr;
#endif
