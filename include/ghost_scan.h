/* ghost state shared between contracts/extstr/scan1.spec.c and the loop contracts of the
 * single-loop, dest-only functions (declarations only) */
#ifndef GHOST_SCAN_H
#define GHOST_SCAN_H
#include <stddef.h>
extern char *g_dest0;               /* dest at entry                                          */
extern size_t g_dmax0;              /* dmax at entry                                          */
extern size_t g_ssz;                /* elements of the exact-fit object dest points to        */
extern size_t g_nul; extern int g_has_nul;   /* Skolem: an index < g_ssz holding NUL          */
extern size_t gk, gj;               /* arbitrary indices                                      */
extern char g_old_k, g_old_j;       /* dest[gk], dest[gj] at entry                            */
extern int g_writer;                /* 1: the function stores through dest (dmax <= g_ssz)    */
extern size_t g_n0;                 /* n at entry (strnset_s counts it down)                  */
extern int g_hcalls; extern int g_herr;
#endif
