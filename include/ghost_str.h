/* ghost state shared between engine-A spec TUs and the loop contracts laid over the real
 * source (declarations only; the spec TU defines them) */
#ifndef GHOST_STR_H
#define GHOST_STR_H
#include <stddef.h>
extern char *g_arena;            /* single arena object: both operands live in it      */
extern size_t g_asz, g_doff, g_soff, g_ssz;
extern size_t gk, gj;            /* arbitrary (universally generalisable) indices      */
extern char gsrc_k, gsrc_j;      /* snapshots of the source at gk / gj before the call */
extern char gdst_k, gdst_j;      /* snapshots of dest at gk / gj before the call       */
extern size_t g_dlen;            /* Skolem: position of dest's first NUL (cat family)  */
extern size_t g_slen0;           /* slen at entry (n-variants count it down)           */
extern int g_sterm;              /* entry fact: src is terminated inside its extent     */
extern int g_hcalls;
extern int g_herr;
#endif
