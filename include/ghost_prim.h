/* ghost state shared between contracts/mem/prims.spec.c and the loop contracts laid over
 * src/mem/mem_primitives_lib.c (declarations only; the spec TU defines them) */
#ifndef GHOST_PRIM_H
#define GHOST_PRIM_H
#include <stddef.h>
#include <stdint.h>
extern size_t gk, gke;          /* arbitrary byte / element index                              */
extern uint32_t g_len0;         /* the len argument at entry (the body counts len down)        */
extern uint32_t g_old;          /* the source element at index gk/gke before the call (move)   */
#endif
