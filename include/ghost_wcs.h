/* ghost state shared between the wide engine-A spec TUs and the loop contracts laid over the real source */
#ifndef GHOST_WCS_H
#define GHOST_WCS_H
#include <stddef.h>
#include <wchar.h>
extern wchar_t *g_arena;         /* single arena object: both operands live in it        */
extern size_t g_asz, g_doff, g_soff, g_ssz;   /* in wide characters                       */
extern size_t gk, gj;            /* arbitrary (universally generalisable) indices        */
extern wchar_t gsrc_k, gsrc_j;   /* snapshots of the source at gk / gj before the call    */
extern int g_hcalls;
extern int g_herr;
#endif
