/* verif.h - common vocabulary of every spec / harness translation unit under /verif.
 *
 * The same harness text is used two ways:
 *   - by goto-cc/cbmc (default): inputs are nondeterministic, ASSUME/CHECK are
 *     __CPROVER_assume/__CPROVER_assert, CANARY(c) is an assertion that is expected to FAIL
 *     (reachability / non-vacuity witness);
 *   - natively with -DVERIF_REPLAY: inputs come from the generated file "replay_in.h"
 *     (assignments extracted from the verifier's counterexample), ASSUME aborts the replay
 *     with exit 3 (input not admissible), CHECK records a violation (exit 1 at the end).
 */
#ifndef VERIF_H
#define VERIF_H

#include "safeclib_private.h"
#include <stdint.h>
#include <stdlib.h>
#include <string.h>
#include <stdio.h>

#ifdef VERIF_REPLAY
extern int verif_failed;
#define ASSUME(c)                                                              \
    do {                                                                       \
        if (!(c)) {                                                            \
            printf("REPLAY-INADMISSIBLE %s\n", #c);                            \
            exit(3);                                                           \
        }                                                                      \
    } while (0)
#define CHECK(c, msg)                                                          \
    do {                                                                       \
        if (!(c)) {                                                            \
            printf("REPLAY-VIOLATION %s\n", msg);                              \
            verif_failed = 1;                                                  \
        }                                                                      \
    } while (0)
#define CANARY(c, msg) ((void)0)
#define ND(type, name) /* value comes from replay_in.h */
#define VERIF_MAIN(fn)                                                         \
    int verif_failed = 0;                                                      \
    int main(void) {                                                           \
        fn();                                                                  \
        if (verif_failed)                                                      \
            return 1;                                                          \
        printf("REPLAY-OK\n");                                                 \
        return 0;                                                              \
    }
#else
#define ASSUME(c) __CPROVER_assume(c)
#define CHECK(c, msg) __CPROVER_assert(c, msg)
/* expected to FAIL: shows that the path on which !(c) holds is reachable */
#define CANARY(c, msg) __CPROVER_assert(c, "CANARY: " msg)
#define VERIF_MAIN(fn)
#endif

/* ---- observation of the constraint handler (C05) -------------------------------------
 * Harnesses install verif_handler through the real set_*_constraint_handler_s API, so the
 * real dispatch code runs.  Contract (engine A) jobs instead give
 * invoke_safe_*_constraint_handler a ghost body, see contracts/ghost_handler.h. */
extern int g_hcalls;
extern errno_t g_herr;
extern void *g_hptr;

#endif
